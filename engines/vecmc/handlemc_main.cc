// C08 (a): the edge<->halfedge, face<->halfface, sub-index and opposite conversions are mutually inverse for EVERY
// representable index in [0, 2^30): exhaustive loop, static (TopologyKernel::) and member (Handle::) forms.
#include <OpenVolumeMesh/Core/TopologyKernel.hh>

#include <atomic>
#include <chrono>
#include <cstdio>
#include <fstream>
#include <sstream>
#include <string>
#include <thread>
#include <vector>

using namespace OpenVolumeMesh;
using TK = TopologyKernel;

static std::atomic<long> g_bad{-1};
static std::atomic<int> g_rule{0};

static inline int check_one(int i) {
    EdgeHandle e(i);
    FaceHandle f(i);
    for (int s = 0; s < 2; ++s) {
        HalfEdgeHandle h = TK::halfedge_handle(e, (unsigned char)s), hm = e.halfedge_handle(s);
        if (h != hm || h.idx() != 2 * i + s) return 1;
        if (TK::edge_handle(h) != e || h.edge_handle() != e) return 2;
        if (h.subidx() != s) return 3;
        HalfEdgeHandle o = TK::opposite_halfedge_handle(h), om = h.opposite_handle();
        if (o != om || o == h || o.idx() != 2 * i + (1 - s)) return 4;
        if (TK::opposite_halfedge_handle(o) != h || om.opposite_handle() != h) return 5;
        if (o.edge_handle() != e || o.subidx() == h.subidx()) return 6;
        HalfFaceHandle g = TK::halfface_handle(f, (unsigned char)s), gm = f.halfface_handle(s);
        if (g != gm || g.idx() != 2 * i + s) return 7;
        if (TK::face_handle(g) != f || g.face_handle() != f) return 8;
        if (g.subidx() != s) return 9;
        HalfFaceHandle p = TK::opposite_halfface_handle(g), pm = g.opposite_handle();
        if (p != pm || p == g || p.idx() != 2 * i + (1 - s)) return 10;
        if (TK::opposite_halfface_handle(p) != g || pm.opposite_handle() != g) return 11;
        if (p.face_handle() != f || p.subidx() == g.subidx()) return 12;
    }
    // the half-entity side of the conversions for index i itself (i as a halfedge / halfface index)
    HalfEdgeHandle hh(i);
    if (TK::halfedge_handle(TK::edge_handle(hh), (unsigned char)hh.subidx()) != hh) return 13;
    HalfFaceHandle gg(i);
    if (TK::halfface_handle(TK::face_handle(gg), (unsigned char)gg.subidx()) != gg) return 14;
    if (!e.is_valid() || (unsigned)e.uidx() != (unsigned)i) return 15;
    return 0;
}

int main(int argc, char **argv) {
    std::string out, replay;
    long limit = 1L << 30;
    for (int i = 1; i < argc; ++i) {
        std::string k = argv[i];
        if (k == "--out" && i + 1 < argc) out = argv[++i];
        else if (k == "--replay" && i + 1 < argc) replay = argv[++i];
        else if (k == "--limit" && i + 1 < argc) limit = std::stol(argv[++i]);
    }
    if (!replay.empty()) {
        int idx = std::stoi(replay);
        int r = check_one(idx);
        if (r) { printf("REPLAY-VIOLATION rule=c08:conversion:%d detail=index %d\n", r, idx); return 1; }
        printf("REPLAY-OK\n");
        return 0;
    }
    auto t0 = std::chrono::steady_clock::now();
    unsigned nt = std::max(1u, std::thread::hardware_concurrency());
    std::vector<std::thread> th;
    for (unsigned t = 0; t < nt; ++t)
        th.emplace_back([=]() {
            long lo = limit / nt * t, hi = (t + 1 == nt) ? limit : limit / nt * (t + 1);
            for (long i = lo; i < hi; ++i) {
                int r = check_one((int)i);
                if (r) { long exp = -1; if (g_bad.compare_exchange_strong(exp, i)) g_rule = r; return; }
            }
        });
    for (auto &t : th) t.join();
    double wall = std::chrono::duration<double>(std::chrono::steady_clock::now() - t0).count();
    std::ostringstream o;
    o << "{\"prop\":\"C08\",\"evaluations\":" << limit << ",\"distinct_nontrivial\":" << limit << ",\"states\":0,\"transitions\":0,\"capped\":false,\"wall_s\":" << wall
      << ",\"checks\":{\"handle-conversion-indices\":" << limit << "},\"samples\":[\"index 0\",\"index 1073741823\"],\"violations\":[";
    if (g_bad >= 0) o << "{\"case\":\"" << g_bad.load() << "\",\"rule\":\"c08:conversion:" << g_rule.load() << "\",\"detail\":\"index " << g_bad.load() << "\"}";
    o << "],\"known\":[]}";
    if (!out.empty()) { std::ofstream f(out); f << o.str() << "\n"; } else printf("%s\n", o.str().c_str());
    return g_bad >= 0 ? 1 : 0;
}
