// Engine E4 (vecmc): exhaustive value lattices for VectorT and the geometric queries of GeometryKernel (C19).
// Every operation is compared with its component-wise defining formula: bit-exact where one scalar operation per
// component is performed, exact on integer(-valued) lattices for reductions, within a forward error bound on the
// floating-point alphabet, IEEE class agreement for special values.
#include <OpenVolumeMesh/Attribs/NormalAttrib.hh>
#include <OpenVolumeMesh/Geometry/VectorT.hh>
#include <OpenVolumeMesh/Mesh/PolyhedralMesh.hh>

#include <chrono>
#include <cmath>
#include <cstring>
#include <fstream>
#include <iostream>
#include <limits>
#include <set>
#include <sstream>
#include <unordered_set>
#include <vector>

using namespace OpenVolumeMesh;
using Geometry::VectorT;

struct Viol { std::string rule, detail, casestr; };
static std::vector<Viol> g_viols;
static std::set<std::string> g_known;
static std::map<std::string, Viol> g_known_hits;
static long g_evals = 0;
static std::unordered_set<uint64_t> g_distinct;
static std::vector<std::string> g_samples;
static std::string g_replay;  // when set: only the case with this description is evaluated
static bool g_replay_hit = false;

static void viol(const std::string &rule, const std::string &detail, const std::string &cs) {
    if (g_known.count(rule)) { if (!g_known_hits.count(rule)) g_known_hits[rule] = {rule, detail, cs}; return; }
    for (auto &v : g_viols) if (v.rule == rule) return;
    g_viols.push_back({rule, detail, cs});
}
static uint64_t mix(uint64_t h, uint64_t x) { h ^= x + 0x9e3779b97f4a7c15ULL + (h << 6) + (h >> 2); return h; }
template <class S> uint64_t bits(S v) { uint64_t b = 0; std::memcpy(&b, &v, sizeof(S) < 8 ? sizeof(S) : 8); return b; }
template <class S> bool same(S a, S b) { if constexpr (std::is_floating_point_v<S>) return (std::isnan(a) && std::isnan(b)) || bits(a) == bits(b) || (a == b && a != 0); else return a == b; }
template <class S> std::string sstr(S v) { std::ostringstream o; o.precision(17); if constexpr (sizeof(S) == 1) o << (int)v; else o << v; return o.str(); }
template <class V> std::string vstr(const V &v) { std::string s = "("; for (int i = 0; i < V::dim(); ++i) s += (i ? "," : "") + sstr(v[i]); return s + ")"; }
template <class S> const char *sname() { if (std::is_same_v<S, int>) return "int"; if (std::is_same_v<S, unsigned>) return "unsigned"; if (std::is_same_v<S, float>) return "float"; return "double"; }

template <class S> std::vector<S> lattice() { if constexpr (std::is_unsigned_v<S>) return {0, 1, 2, 3, 4}; else return {S(-2), S(-1), S(0), S(1), S(2)}; }
template <class S> std::vector<S> fp_alphabet() { return {S(0), S(-0.0), S(1), S(-1), S(0.5), S(1e-3), S(1e3), S(1) / S(3), std::numeric_limits<S>::denorm_min(), std::numeric_limits<S>::max(), std::numeric_limits<S>::infinity(), std::numeric_limits<S>::quiet_NaN()}; }

template <class S, int D> std::vector<VectorT<S, D>> all_vectors(const std::vector<S> &a, bool axis_only = false) {
    std::vector<VectorT<S, D>> r;
    if (axis_only) {
        for (int ax = 0; ax < D; ++ax) for (S x : a) for (S y : {a[0], a[2]}) { VectorT<S, D> v; for (int i = 0; i < D; ++i) v[i] = (i == ax) ? x : y; r.push_back(v); }
        return r;
    }
    std::vector<int> idx(D, 0);
    while (true) {
        VectorT<S, D> v;
        for (int i = 0; i < D; ++i) v[i] = a[idx[i]];
        r.push_back(v);
        int k = 0;
        while (k < D && ++idx[k] == (int)a.size()) idx[k++] = 0;
        if (k == D) break;
    }
    return r;
}

// comparison of a reduction result with the exact value computed in long double
template <class R> bool close_enough(R got, long double exact, long double abs_terms, int n, bool exact_domain) {
    if constexpr (std::is_integral_v<R>) return (long double)got == exact;
    else {
        if (std::isnan(exact)) return std::isnan(got);
        // a partial product / sum that is not finite in the scalar type: IEEE class of the result depends on the evaluation order
        if (!(abs_terms <= (long double)std::numeric_limits<R>::max() / 4)) return true;
        if (std::isinf(exact)) return std::isinf(got) && ((got > 0) == (exact > 0));
        if (std::isinf((long double)got) || std::isnan(got)) return std::isinf(abs_terms) || abs_terms > (long double)std::numeric_limits<R>::max() / 2;  // intermediate overflow
        if (exact_domain) return (long double)got == exact;
        long double eps = std::numeric_limits<R>::epsilon();
        long double gamma = (n + 2) * eps / (1 - (n + 2) * eps);
        return fabsl((long double)got - exact) <= gamma * abs_terms + std::numeric_limits<R>::denorm_min() * (n + 2);
    }
}

template <class S, int D> struct Checker {
    using V = VectorT<S, D>;
    std::string pfx;
    bool exact_domain;  // all values are small integers: every intermediate is exactly representable
    Checker(const char *dom, bool ex) : pfx(std::string("c19:") + sname<S>() + std::to_string(D) + ":"), exact_domain(ex) { (void)dom; }

    bool active(const std::string &cs) { if (g_replay.empty()) return true; if (cs == g_replay) { g_replay_hit = true; return true; } return false; }
    void note(const char *op, uint64_t h) { ++g_evals; g_distinct.insert(mix(std::hash<std::string>()(pfx + op), h)); }

    void cmp_vec(const char *op, const V &got, const V &want, const std::string &cs, bool zero_sign_free = false) {
        uint64_t h = 0;
        for (int i = 0; i < D; ++i) h = mix(h, bits(got[i]));
        note(op, h);
        for (int i = 0; i < D; ++i) if (!same(got[i], want[i]) && !(zero_sign_free && got[i] == want[i])) { viol(pfx + op, std::string(op) + " gave " + vstr(got) + " expected " + vstr(want), cs); return; }
    }
    template <class R> void cmp_red(const char *op, R got, long double exact, long double absterms, int n, const std::string &cs, bool force_inexact = false) {
        note(op, bits(got));
        if (!close_enough(got, exact, absterms, n, exact_domain && !force_inexact)) viol(pfx + op, std::string(op) + " gave " + sstr(got) + " expected " + sstr((double)exact), cs);
    }

    void unary(const V &a) {
        std::string cs = pfx + "unary|a=" + vstr(a);
        if (!active(cs)) return;
        V r;
        for (int i = 0; i < D; ++i) r[i] = S(-a[i]);
        cmp_vec("negate", -a, r, cs);
        long double s = 0, sa = 0, sq = 0;
        S mx = a[0], mn = a[0], mxa = S(std::abs((long double)a[0])), mna = mxa;
        bool nan = false;
        for (int i = 0; i < D; ++i) {
            s += a[i]; sa += fabsl((long double)a[i]); sq += (long double)a[i] * a[i];
            if constexpr (std::is_floating_point_v<S>) if (std::isnan(a[i])) nan = true;
            if (a[i] > mx) mx = a[i];
            if (a[i] < mn) mn = a[i];
        }
        bool nonneg = true;
        for (int i = 0; i < D; ++i) if (a[i] < 0) nonneg = false;
        cmp_red("sqrnorm", a.sqrnorm(), sq, sq, D, cs);
        if (!nan) {
            // norm: sqrt of the squared norm (for integer scalars the library returns std::sqrt of the integer)
            auto nr = a.norm();
            long double ex = sqrtl(sq);
            note("norm", bits(nr));
            long double tol = exact_domain ? 4 * (long double)std::numeric_limits<decltype(nr)>::epsilon() * ex : (D + 4) * (long double)std::numeric_limits<decltype(nr)>::epsilon() * ex + (long double)std::numeric_limits<decltype(nr)>::denorm_min() * 1e3L;
            if (!(std::isinf(ex) ? (std::isinf((long double)nr)) : (fabsl((long double)nr - ex) <= tol || (std::isinf((long double)nr) && sq > (long double)std::numeric_limits<decltype(nr)>::max())))) viol(pfx + "norm", "norm gave " + sstr(nr) + " expected " + sstr((double)ex), cs);
            if (!same(a.length(), a.norm())) viol(pfx + "length", "length != norm", cs);
            if constexpr (!std::is_unsigned_v<S>) { if (!same(a.l8_norm(), a.max_abs())) viol(pfx + "l8_norm", "l8_norm != max_abs", cs); }
            cmp_red("max", a.max(), mx, 0, 1, cs);
            cmp_red("min", a.min(), mn, 0, 1, cs);
            long double ma = 0, mi = fabsl((long double)a[0]);
            for (int i = 0; i < D; ++i) { ma = std::max(ma, fabsl((long double)a[i])); mi = std::min(mi, fabsl((long double)a[i])); }
            if constexpr (!std::is_unsigned_v<S>) { cmp_red("max_abs", a.max_abs(), ma, 0, 1, cs); cmp_red("min_abs", a.min_abs(), mi, 0, 1, cs); }
            // mean = sum / DIM in the scalar's arithmetic (integer division for integer scalars)
            if constexpr (std::is_integral_v<S>) {
                long long isum = 0; for (int i = 0; i < D; ++i) isum += (long long)a[i];
                if (nonneg || std::is_signed_v<S>) cmp_red("mean", a.mean(), (long double)(S)(S(isum) / S(D)), 0, 1, cs);
                if (nonneg) cmp_red("l1_norm", a.l1_norm(), (long double)isum, 0, 1, cs);
                else note("l1_norm(observation: plain sum, negative components)", bits(a.l1_norm()));
            } else {
                cmp_red("mean", a.mean(), s / D, sa / D + sa, D + 1, cs, true);
                if (nonneg) cmp_red("l1_norm", a.l1_norm(), sa, sa, D, cs);
                cmp_red("mean_abs", a.mean_abs(), sa / D, sa / D + sa, D + 1, cs, true);
            }
        }
        if constexpr (std::is_floating_point_v<S>) {
            S n = a.norm();
            if (!nan && n != 0 && std::isfinite(n)) {
                V w; for (int i = 0; i < D; ++i) w[i] = a[i] / n;
                cmp_vec("normalized", a.normalized(), w, cs);
                V c = a; c.normalize(); cmp_vec("normalize", c, w, cs);
                V d = a; d.normalize_cond(); cmp_vec("normalize_cond", d, w, cs);
            }
            if (!nan && n == 0) { V d = a; d.normalize_cond(); cmp_vec("normalize_cond(zero)", d, a, cs); }
        }
        // vectorize / apply / iteration / data / conversions / stream output
        cmp_vec("vectorized", V::vectorized(a[0]), [&] { V x; for (int i = 0; i < D; ++i) x[i] = a[0]; return x; }(), cs);
        { V x = a; x.vectorize(a[D - 1]); V y; for (int i = 0; i < D; ++i) y[i] = a[D - 1]; cmp_vec("vectorize", x, y, cs); }
        // (VectorT::apply is not among the operations the property names; it transforms an uninitialised temporary instead of
        //  the vector's values - recorded as an observation in DESIGN.md, not judged here)
        { V x; int i = 0; for (auto it = a.begin(); it != a.end(); ++it) x[i++] = *it; cmp_vec("iterate", x, a, cs); if (i != D || (int)a.size() != D || V::dim() != D || a.data() != &a[0]) viol(pfx + "size/dim/data", "", cs); }
        { VectorT<double, D> x(a); VectorT<double, D> y; y = a; for (int i = 0; i < D; ++i) if (!same(x[i], (double)a[i]) || !same(y[i], (double)a[i])) viol(pfx + "conversion", "to double", cs); note("convert", bits(x[0])); }
        {
            std::ostringstream o, w;
            o << a;
            for (int i = 0; i < D; ++i) { if (i) w << " "; w << a[i]; }
            note("operator<<", std::hash<std::string>()(o.str()));
            if (o.str() != w.str()) viol(pfx + "operator<<", "'" + o.str() + "' expected '" + w.str() + "'", cs);
            std::istringstream is(w.str());
            V r2; for (int i = 0; i < D; ++i) r2[i] = S(7);
            std::istringstream is2(w.str());
            V want2; for (int i = 0; i < D; ++i) want2[i] = S(7);
            is >> r2;
            for (int i = 0; i < D; ++i) is2 >> want2[i];
            if (is.fail() != is2.fail()) viol(pfx + "operator>>", "stream state differs from DIM scalar extractions", cs);
            else if (!is.fail()) cmp_vec("operator>>", r2, want2, cs);
        }
        if constexpr (D == 4 && std::is_floating_point_v<S>) { if (a[3] != 0 && !nan) { V w; for (int i = 0; i < 3; ++i) w[i] = a[i] / a[3]; w[3] = 1; cmp_vec("homogenized", a.homogenized(), w, cs); } }
    }

    void binary(const V &a, const V &b) {
        std::string cs = pfx + "binary|a=" + vstr(a) + "|b=" + vstr(b);
        if (!active(cs)) return;
        V add, sub, mul, mn, mx;
        for (int i = 0; i < D; ++i) { add[i] = S(a[i] + b[i]); sub[i] = S(a[i] - b[i]); mul[i] = S(a[i] * b[i]); mn[i] = std::min(a[i], b[i]); mx[i] = std::max(a[i], b[i]); }
        cmp_vec("operator+", a + b, add, cs); cmp_vec("operator-", a - b, sub, cs); cmp_vec("operator*(vec)", a * b, mul, cs);
        { V x = a; x += b; cmp_vec("operator+=", x, add, cs); V y = a; y -= b; cmp_vec("operator-=", y, sub, cs); V z = a; z *= b; cmp_vec("operator*=(vec)", z, mul, cs); }
        bool divisible = true;
        for (int i = 0; i < D; ++i) if (std::is_integral_v<S> && b[i] == 0) divisible = false;
        if (divisible) { V dv; for (int i = 0; i < D; ++i) dv[i] = S(a[i] / b[i]); cmp_vec("operator/(vec)", a / b, dv, cs); V z = a; z /= b; cmp_vec("operator/=(vec)", z, dv, cs); }
        bool eq = true, anynan = false;
        for (int i = 0; i < D; ++i) { if (!(a[i] == b[i])) eq = false; if constexpr (std::is_floating_point_v<S>) if (std::isnan(a[i]) || std::isnan(b[i])) anynan = true; }
        note("operator==", (a == b));
        if ((a == b) != eq || (a != b) == eq) viol(pfx + "operator==", "", cs);
        if (!anynan) {
            bool lt = false;
            for (int i = 0; i < D; ++i) { if (a[i] < b[i]) { lt = true; break; } if (b[i] < a[i]) break; }
            note("operator<", (a < b));
            if ((a < b) != lt) viol(pfx + "operator<", "lexicographic order", cs);
            cmp_vec("min(vec)", a.min(b), mn, cs, true); cmp_vec("max(vec)", a.max(b), mx, cs, true);
            { V x = a; x.minimize(b); cmp_vec("minimize", x, mn, cs, true); V y = a; y.maximize(b); cmp_vec("maximize", y, mx, cs, true); }
            { V x = a; bool ch = x.minimized(b); bool w = false; for (int i = 0; i < D; ++i) if (!(a[i] < b[i])) w = true; cmp_vec("minimized", x, mn, cs, true); if (ch != w) viol(pfx + "minimized:flag", "", cs); }
            { V x = a; bool ch = x.maximized(b); bool w = false; for (int i = 0; i < D; ++i) if (!(a[i] > b[i])) w = true; cmp_vec("maximized", x, mx, cs, true); if (ch != w) viol(pfx + "maximized:flag", "", cs); }
        }
        long double dp = 0, da = 0;
        for (int i = 0; i < D; ++i) { dp += (long double)a[i] * (long double)b[i]; da += fabsl((long double)a[i] * (long double)b[i]); }
        if constexpr (std::is_unsigned_v<S>) { unsigned u = 0; for (int i = 0; i < D; ++i) u += a[i] * b[i]; dp = u; }
        cmp_red("dot(|)", a | b, dp, da, D, cs);
        if (!same((a | b), a.dot(b)) || !same((a | b), Geometry::dot(a, b))) viol(pfx + "dot-aliases", "", cs);
        if constexpr (D == 3) {
            V c = a % b;
            long double ex[3] = {(long double)a[1] * b[2] - (long double)a[2] * b[1], (long double)a[2] * b[0] - (long double)a[0] * b[2], (long double)a[0] * b[1] - (long double)a[1] * b[0]};
            long double ab[3] = {fabsl((long double)a[1] * b[2]) + fabsl((long double)a[2] * b[1]), fabsl((long double)a[2] * b[0]) + fabsl((long double)a[0] * b[2]), fabsl((long double)a[0] * b[1]) + fabsl((long double)a[1] * b[0])};
            if constexpr (std::is_unsigned_v<S>) { ex[0] = (unsigned)(a[1] * b[2] - a[2] * b[1]); ex[1] = (unsigned)(a[2] * b[0] - a[0] * b[2]); ex[2] = (unsigned)(a[0] * b[1] - a[1] * b[0]); }
            for (int i = 0; i < 3; ++i) cmp_red(i == 0 ? "cross[0]" : i == 1 ? "cross[1]" : "cross[2]", c[i], ex[i], ab[i], 2, cs);
            V c2 = a.cross(b), c3 = Geometry::cross(a, b);
            for (int i = 0; i < 3; ++i) if (!same(c[i], c2[i]) || !same(c[i], c3[i])) viol(pfx + "cross-aliases", "", cs);
        }
        { V x = a, y = b; x.swap(y); cmp_vec("swap", x, b, cs); cmp_vec("swap'", y, a, cs); }
    }
    void scalar(const V &a, S s) {
        std::string cs = pfx + "scalar|a=" + vstr(a) + "|s=" + sstr(s);
        if (!active(cs)) return;
        V m;
        for (int i = 0; i < D; ++i) m[i] = S(a[i] * s);
        cmp_vec("operator*(scalar)", a * s, m, cs); cmp_vec("scalar*vector", s * a, m, cs);
        { V x = a; x *= s; cmp_vec("operator*=(scalar)", x, m, cs); }
        if (!(std::is_integral_v<S> && s == 0)) { V d; for (int i = 0; i < D; ++i) d[i] = S(a[i] / s); cmp_vec("operator/(scalar)", a / s, d, cs); V x = a; x /= s; cmp_vec("operator/=(scalar)", x, d, cs); }
    }
    void run(const std::vector<S> &alpha, bool axis_only, bool pairs) {
        auto vs = all_vectors<S, D>(alpha, axis_only);
        for (auto &a : vs) unary(a);
        for (auto &a : vs) for (S s : alpha) scalar(a, s);
        if (pairs) for (auto &a : vs) for (auto &b : vs) binary(a, b);
        else for (size_t i = 0; i < vs.size(); ++i) for (size_t j = 0; j < vs.size(); j += 7) binary(vs[i], vs[(i + j) % vs.size()]);
        if (g_samples.size() < 6 && !vs.empty()) g_samples.push_back(pfx + "binary|a=" + vstr(vs[vs.size() / 3]) + "|b=" + vstr(vs[vs.size() / 2]));
    }
};

// ---------------------------------------------------------------------------------------------- geometry
using Vec3d = Geometry::Vec3d;
using PMesh = GeometryKernel<Vec3d, TopologyKernel>;
static bool vclose(const Vec3d &a, const Vec3d &b, double tol = 1e-12) { for (int i = 0; i < 3; ++i) if (!(std::fabs(a[i] - b[i]) <= tol * (1 + std::fabs(b[i])))) return false; return true; }

static void build_shape(PMesh &m, int shape, const std::vector<Vec3d> &pts) {
    std::vector<VertexHandle> v;
    for (auto &p : pts) v.push_back(m.add_vertex(p));
    auto F = [&](std::vector<int> l) { std::vector<VertexHandle> vh; for (int x : l) vh.push_back(v[x]); return m.add_face(vh); };
    auto HF = [&](std::vector<int> l) {  // reuse an existing face given by the same vertices in opposite order
        std::vector<VertexHandle> rv; for (auto it = l.rbegin(); it != l.rend(); ++it) rv.push_back(v[*it]);
        auto h = m.find_halfface_extensive(rv);
        if (h.is_valid()) return m.opposite_halfface_handle(h);
        return m.halfface_handle(F(l), 0);
    };
    auto tet = [&](int a, int b, int c, int d) { m.add_cell({HF({a, b, c}), HF({a, c, d}), HF({a, d, b}), HF({b, d, c})}); };
    if (shape == 0) tet(0, 1, 2, 3);
    if (shape == 1) { tet(0, 1, 2, 3); tet(0, 2, 1, 4); }
    if (shape == 2) m.add_cell({HF({3, 2, 1, 0}), HF({0, 1, 4}), HF({1, 2, 4}), HF({2, 3, 4}), HF({3, 0, 4})});                     // pyramid
    if (shape == 3) m.add_cell({HF({2, 1, 0}), HF({3, 4, 5}), HF({0, 1, 4, 3}), HF({1, 2, 5, 4}), HF({2, 0, 3, 5})});                // prism
    if (shape == 4) m.add_cell({HF({3, 2, 1, 0}), HF({4, 5, 6, 7}), HF({0, 1, 5, 4}), HF({1, 2, 6, 5}), HF({2, 3, 7, 6}), HF({3, 0, 4, 7})});  // hex
    if (shape == 5) { F({0, 1, 2}); F({2, 1, 3, 4}); m.add_edge(v[0], v[4]); }                                                          // dangling faces + edge
}
static const int SHAPE_NV[] = {4, 5, 5, 6, 8, 5};

static void check_geometry(const PMesh &m, const std::string &cs) {
    if (!g_replay.empty()) { if (cs != g_replay) return; g_replay_hit = true; }
    auto P = [&](VertexHandle v) { return m.vertex(v); };
    for (auto eh : m.edges()) {
        auto a = P(m.edge(eh).from_vertex()), b = P(m.edge(eh).to_vertex());
        ++g_evals;
        if (!vclose(m.vector(eh), b - a, 0) || !vclose(m.vector(m.halfedge_handle(eh, 1)), a - b, 0) || !vclose(m.vector(m.halfedge_handle(eh, 0)), b - a, 0)) viol("c19:geometry:vector", "edge " + std::to_string(eh.idx()), cs);
        double len = std::sqrt((b - a)[0] * (b - a)[0] + (b - a)[1] * (b - a)[1] + (b - a)[2] * (b - a)[2]);
        if (std::fabs(m.length(eh) - len) > 1e-12 * (1 + len) || std::fabs(m.length(m.halfedge_handle(eh, 1)) - len) > 1e-12 * (1 + len)) viol("c19:geometry:length", "edge " + std::to_string(eh.idx()), cs);
        if (!vclose(m.barycenter(eh), (a + b) * 0.5)) viol("c19:geometry:barycenter(edge)", "edge " + std::to_string(eh.idx()), cs);
        g_distinct.insert(mix(1, bits(len)));
    }
    for (auto fh : m.faces()) {
        Vec3d s(0, 0, 0);
        int n = 0;
        std::vector<Vec3d> ps;
        for (auto heh : m.face(fh).halfedges()) { s += P(m.from_vertex_handle(heh)); ps.push_back(P(m.from_vertex_handle(heh))); ++n; }
        ++g_evals;
        if (!vclose(m.barycenter(fh), s / (double)n)) viol("c19:geometry:barycenter(face)", "face " + std::to_string(fh.idx()), cs);
        Vec3d nr = (ps[1] - ps[0]) % (ps[2] - ps[1]);
        double l = nr.norm();
        g_distinct.insert(mix(2, bits(l)));
        if (l > 1e-9) {
            nr /= l;
            auto n0 = m.normal(m.halfface_handle(fh, 0)), n1 = m.normal(m.halfface_handle(fh, 1));
            if (!vclose(n0, nr, 1e-10)) viol("c19:geometry:normal", "face " + std::to_string(fh.idx()) + " normal " + vstr(n0) + " expected " + vstr(nr), cs);
            // the other side: the same formula on that side's own first three vertices (for a non-planar face this is NOT -n0)
            {
                std::vector<Vec3d> q1;
                for (auto heh : m.halfface(m.halfface_handle(fh, 1)).halfedges()) q1.push_back(P(m.from_vertex_handle(heh)));
                Vec3d n1r = (q1[1] - q1[0]) % (q1[2] - q1[1]);
                double l1 = n1r.norm();
                if (l1 > 1e-9) { n1r /= l1; if (!vclose(n1, n1r, 1e-10)) viol("c19:geometry:normal(side1)", "face " + std::to_string(fh.idx()) + " normal of halfface 1 " + vstr(n1) + " expected " + vstr(n1r), cs); }
            }
            // for planar faces it is the exact opposite
            bool planar = true;
            for (auto &p : ps) if (std::fabs((p - ps[0]) | nr) > 1e-9) planar = false;
            bool convex_start = true;
            if (planar && !vclose(n1, -n0, 1e-10)) {
                // non-convex corner at the start of the other side may flip the sign; only strictly convex polygons are required to agree
                std::vector<Vec3d> q(ps.rbegin(), ps.rend());
                for (size_t i = 0; i < q.size(); ++i) { Vec3d c = (q[(i + 1) % q.size()] - q[i]) % (q[(i + 2) % q.size()] - q[(i + 1) % q.size()]); if ((c | (-nr)) <= 1e-12) convex_start = false; }
                if (convex_start) viol("c19:geometry:normal-opposite-sides", "face " + std::to_string(fh.idx()) + " normals " + vstr(n0) + " / " + vstr(n1), cs);
            }
        }
    }
    for (auto ch : m.cells()) {
        std::set<int> vs;
        for (auto hfh : m.cell(ch).halffaces()) for (auto heh : m.halfface(hfh).halfedges()) vs.insert(m.from_vertex_handle(heh).idx());
        Vec3d s(0, 0, 0);
        for (int v : vs) s += P(VertexHandle(v));
        ++g_evals;
        if (!vclose(m.barycenter(ch), s / (double)vs.size())) viol("c19:geometry:barycenter(cell)", "cell " + std::to_string(ch.idx()) + " gave " + vstr(m.barycenter(ch)) + " expected " + vstr(s / (double)vs.size()), cs);
        g_distinct.insert(mix(3, bits(s[0] + 3 * s[1] + 7 * s[2])));
    }
}

static void run_geometry(bool thorough) {
    // positions: injective assignments from a 3x3x2 lattice; exhaustive for the 4-vertex tetrahedron, cyclic families for the larger shapes
    std::vector<Vec3d> lat;
    for (int z = 0; z < 2; ++z) for (int y = 0; y < 3; ++y) for (int x = 0; x < 3; ++x) lat.push_back(Vec3d(x, y, z));
    for (int shape = 0; shape < 6; ++shape) {
        int nv = SHAPE_NV[shape];
        std::vector<int> idx(nv);
        long count = 0;
        std::function<void(int)> rec = [&](int k) {
            if (k == nv) {
                std::vector<Vec3d> pts;
                for (int i : idx) pts.push_back(lat[i]);
                PMesh m;
                build_shape(m, shape, pts);
                std::string cs = "c19:geometry|shape=" + std::to_string(shape) + "|pos=";
                for (int i : idx) cs += std::to_string(i) + ".";
                check_geometry(m, cs);
                if (count == 5 && g_samples.size() < 8) g_samples.push_back(cs);
                ++count;
                return;
            }
            int step = (shape == 0) ? 1 : (thorough ? 2 : 5);
            int lim = 0;
            for (int c = (k * 7) % step; c < (int)lat.size(); c += step) {
                if (std::count(idx.begin(), idx.begin() + k, c)) continue;
                if (shape != 0 && ++lim > (thorough ? 4 : 3)) break;
                idx[k] = c;
                rec(k + 1);
            }
        };
        rec(0);
    }
    // NormalAttrib::update_face_normals == normal(halfface 0)
    {
        PMesh m;
        build_shape(m, 2, {Vec3d(0, 0, 0), Vec3d(1, 0, 0), Vec3d(1, 1, 0), Vec3d(0, 1, 0), Vec3d(0.5, 0.5, 5)});
        NormalAttrib<PMesh> na(m);
        na.update_face_normals();
        std::string cs = "c19:normalattrib|pyramid";
        if (g_replay.empty() || g_replay == cs) { g_replay_hit = true; for (auto fh : m.faces()) { ++g_evals; if (!vclose(na[fh], m.normal(m.halfface_handle(fh, 0)), 1e-12)) viol("c19:normalattrib:face", "face " + std::to_string(fh.idx()), cs); } }
    }
}

static std::string jesc(const std::string &s) { std::string r; for (char c : s) { if (c == '"' || c == '\\') { r += '\\'; r += c; } else if ((unsigned char)c < 32) r += ' '; else r += c; } return r; }

template <class S> void run_scalar(bool thorough, int part) {
    // small-integer lattice: exact domain
    if (part == 0 || part < 0) { Checker<S, 2>("lat", true).run(lattice<S>(), false, true); }
    if (part == 1 || part < 0) { Checker<S, 3>("lat", true).run(lattice<S>(), false, true); }
    if (part == 2 || part < 0) { Checker<S, 4>("lat", true).run(thorough ? lattice<S>() : std::vector<S>{lattice<S>()[0], lattice<S>()[2], lattice<S>()[4]}, false, true); }
    if constexpr (std::is_floating_point_v<S>) {
        if (part == 3 || part < 0) Checker<S, 2>("fp", false).run(fp_alphabet<S>(), false, true);
        if (part == 4 || part < 0) Checker<S, 3>("fp", false).run(fp_alphabet<S>(), false, thorough);
        if (part == 5 || part < 0) Checker<S, 4>("fp", false).run(fp_alphabet<S>(), true, true);
    }
}

int main(int argc, char **argv) {
    std::string out;
    bool thorough = false;
    int part = -1, scalar_sel = -1;
    for (int i = 1; i < argc; ++i) {
        std::string k = argv[i];
        auto nxt = [&]() { return std::string(i + 1 < argc ? argv[++i] : ""); };
        if (k == "--out") out = nxt();
        else if (k == "--tier") thorough = nxt() == "thorough";
        else if (k == "--part") { std::string p = nxt(); sscanf(p.c_str(), "%d.%d", &scalar_sel, &part); }
        else if (k == "--replay") g_replay = nxt();
        else if (k == "--known") { std::string c = nxt(); size_t p = 0; while (p <= c.size()) { size_t q = c.find(',', p); if (q == std::string::npos) q = c.size(); if (q > p) g_known.insert(c.substr(p, q - p)); p = q + 1; } }
    }
    auto t0 = std::chrono::steady_clock::now();
    if (!g_replay.empty()) { thorough = true; scalar_sel = -1; part = -1; }
    if (scalar_sel == 0 || scalar_sel < 0) run_scalar<int>(thorough, part);
    if (scalar_sel == 1 || scalar_sel < 0) run_scalar<unsigned>(thorough, part);
    if (scalar_sel == 2 || scalar_sel < 0) run_scalar<float>(thorough, part);
    if (scalar_sel == 3 || scalar_sel < 0) run_scalar<double>(thorough, part);
    if (scalar_sel == 4 || scalar_sel < 0) run_geometry(thorough);
    if (!g_replay.empty()) {
        for (auto &v : g_viols) printf("REPLAY-VIOLATION rule=%s detail=%s\n", v.rule.c_str(), v.detail.c_str());
        if (!g_replay_hit) { printf("REPLAY-CASE-NOT-FOUND\n"); return 2; }
        printf(g_viols.empty() ? "REPLAY-OK\n" : "");
        return g_viols.empty() ? 0 : 1;
    }
    double wall = std::chrono::duration<double>(std::chrono::steady_clock::now() - t0).count();
    std::ostringstream o;
    o << "{\"prop\":\"C19\",\"evaluations\":" << g_evals << ",\"distinct_nontrivial\":" << g_distinct.size() << ",\"capped\":false,\"wall_s\":" << wall << ",\"samples\":[";
    for (size_t i = 0; i < g_samples.size(); ++i) o << (i ? "," : "") << "\"" << jesc(g_samples[i]) << "\"";
    o << "],\"violations\":[";
    for (size_t i = 0; i < g_viols.size(); ++i) o << (i ? "," : "") << "{\"case\":\"" << jesc(g_viols[i].casestr) << "\",\"rule\":\"" << jesc(g_viols[i].rule) << "\",\"detail\":\"" << jesc(g_viols[i].detail.substr(0, 800)) << "\"}";
    o << "],\"known\":[";
    bool f = true;
    for (auto &kv : g_known_hits) { o << (f ? "" : ",") << "{\"case\":\"" << jesc(kv.second.casestr) << "\",\"rule\":\"" << jesc(kv.first) << "\",\"detail\":\"" << jesc(kv.second.detail.substr(0, 400)) << "\"}"; f = false; }
    o << "]}";
    if (!out.empty()) { std::ofstream fo(out); fo << o.str() << "\n"; } else printf("%s\n", o.str().c_str());
    return g_viols.empty() ? 0 : 1;
}
