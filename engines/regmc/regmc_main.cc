// Engine E2 (regmc): exhaustive exploration of the property registry and object lifetimes (C14).
// States are operation histories replayed on fresh objects (two meshes, handle slots); every step is compared with
// a small reference model of the registry (DESIGN.md section 12); ASan is the lifetime oracle.
#include <OpenVolumeMesh/Core/TopologyKernel.hh>

#include <algorithm>
#include <chrono>
#include <csignal>
#include <cstring>
#include <fstream>
#include <functional>
#include <iostream>
#include <map>
#include <memory>
#include <optional>
#include <set>
#include <sstream>
#include <unistd.h>
#include <unordered_set>
#include <vector>

using namespace OpenVolumeMesh;
using Mesh = TopologyKernel;

static char g_ctx[8192];
static void crash_handler(int sig) {
    const char *p = "\nCRASH-CONTEXT: ";
    (void)!write(2, p, strlen(p));
    (void)!write(2, g_ctx, strlen(g_ctx));
    (void)!write(2, " |phase=exec\n", 13);
    _exit(99);
}
static void set_ctx(const std::string &s) { size_t n = std::min(s.size(), sizeof(g_ctx) - 1); memcpy(g_ctx, s.data(), n); g_ctx[n] = 0; }

// ---------------------------------------------------------------------------------------------- alphabet
// TK combos: 0 = (int, Vertex), 1 = (std::string, Vertex), 2 = (int, HalfEdge); 2 handle slots each; 2 meshes
static const int NTK = 3, NSLOT = 6;
static const char *NAMES[] = {"", "a", "b"};
enum OpK { REQUEST, CREATE_SHARED, CREATE_PERSISTENT, CREATE_PRIVATE, GET, SET_SHARED, SET_PERSISTENT, SET_NAME, COPY, MOVE, DROP, CLEAR_PROPS, CLEAR_ALL, CLEAR,
           ADD_VERTEX, ADD_EDGE, MESH_COPY, MESH_ASSIGN, SELF_ASSIGN, DESTROY, SWITCH, N_OPK };
static const char *OPN[] = {"request", "create_shared", "create_persistent", "create_private", "get_property", "set_shared", "set_persistent", "set_name", "slot_copy", "slot_move", "slot_drop",
                            "clear_props", "clear_all_props", "clear", "add_vertex", "add_edge", "mesh_copy_construct", "mesh_assign", "self_assign", "destroy_mesh", "switch_active"};
struct Op { int k = 0, a = 0, b = 0; std::string str() const { return std::string(OPN[k]) + " " + std::to_string(a) + " " + std::to_string(b); } };
using Hist = std::vector<Op>;
static std::string hist_str(const Hist &h) { std::string s; for (size_t i = 0; i < h.size(); ++i) s += (i ? ";" : "") + h[i].str(); return s; }
static bool hist_parse(const std::string &s, Hist &h) {
    h.clear();
    std::istringstream is(s);
    std::string tok;
    while (std::getline(is, tok, ';')) {
        std::istringstream t(tok);
        std::string n; Op o;
        if (!(t >> n)) continue;
        o.k = -1;
        for (int i = 0; i < N_OPK; ++i) if (n == OPN[i]) o.k = i;
        if (o.k < 0) return false;
        t >> o.a >> o.b;
        h.push_back(o);
    }
    return true;
}

// ---------------------------------------------------------------------------------------------- reference model
struct Rec { int id, tk; std::string name; bool shared, persistent; int mesh; size_t size; };
struct Model {
    std::vector<Rec> recs;      // live records
    int slot[NSLOT];            // record id or -1
    bool alive[2] = {true, false};
    size_t nV[2] = {0, 0}, nE[2] = {0, 0};
    int active = 0, next_id = 0;
    Model() { for (int &s : slot) s = -1; }
    Rec *rec(int id) { for (auto &r : recs) if (r.id == id) return &r; return nullptr; }
    int handles(int id) const { int n = 0; for (int s : slot) n += s == id; return n; }
    size_t n_of(int tk, int m) const { return tk == 2 ? 2 * nE[m] : nV[m]; }
    Rec *find(int m, int tk, const std::string &name) { if (name.empty()) return nullptr; for (auto &r : recs) if (r.mesh == m && r.tk == tk && r.shared && r.name == name) return &r; return nullptr; }
    void reap() { recs.erase(std::remove_if(recs.begin(), recs.end(), [&](const Rec &r) { return handles(r.id) == 0 && !(r.persistent && r.mesh >= 0); }), recs.end()); }
    void unpersist_unshare(int m, int kind /* -1 all, 0 vertex, 1 halfedge */) {
        for (auto &r : recs) if (r.mesh == m && (kind < 0 || (kind == 0) == (r.tk != 2))) { r.persistent = false; r.shared = false; }
        reap();
    }
    std::string key() const {
        std::ostringstream o;
        std::map<int, int> ren;  // canonical renaming of record ids by first appearance (slots first, then the rest sorted)
        auto id = [&](int x) { if (x < 0) return -1; if (!ren.count(x)) { int n = (int)ren.size(); ren[x] = n; } return ren[x]; };
        for (int s : slot) o << id(s) << ',';
        std::vector<std::string> rs;
        for (auto &r : recs) { std::ostringstream q; q << (ren.count(r.id) ? ren.at(r.id) : 99) << '|' << r.tk << r.name << '|' << r.shared << r.persistent << r.mesh << '|' << r.size; rs.push_back(q.str()); }
        std::sort(rs.begin(), rs.end());
        for (auto &s : rs) o << s << ';';
        o << alive[0] << alive[1] << ' ' << nV[0] << nE[0] << nV[1] << nE[1] << active;
        return o.str();
    }
};

// ---------------------------------------------------------------------------------------------- system under test
template <class T, class E> using PP = std::optional<PropertyPtr<T, E>>;
struct Sut {
    std::unique_ptr<Mesh> mesh[2];
    PP<int, Entity::Vertex> s0[2];
    PP<std::string, Entity::Vertex> s1[2];
    PP<int, Entity::HalfEdge> s2[2];
    Sut() { mesh[0] = std::make_unique<Mesh>(); }
};
template <class F> auto with_slot(Sut &s, int slot, F f) {
    int tk = slot / 2, i = slot % 2;
    if (tk == 0) return f(s.s0[i], int(7));
    if (tk == 1) return f(s.s1[i], std::string("dflt"));
    return f(s.s2[i], int(7));
}
template <class F> auto with_pair(Sut &s, int tk, F f) {
    if (tk == 0) return f(s.s0[0], s.s0[1]);
    if (tk == 1) return f(s.s1[0], s.s1[1]);
    return f(s.s2[0], s.s2[1]);
}

struct StepResult { std::string outcome; };  // "ok", "found", "nullopt", "throw:runtime_error", ...

struct Viol { std::string rule, detail; };

// executes op on the real objects and returns the observed outcome class
static std::string exec(Sut &s, const Model &pre, const Op &o) {
    int act = pre.active;
    Mesh *m = s.mesh[act].get();
    try {
        switch (o.k) {
        case REQUEST: return with_slot(s, o.a, [&](auto &sl, auto def) { using P = typename std::decay_t<decltype(sl)>::value_type; using T = typename P::value_type; using E = typename P::EntityTagT; sl = m->request_property<T, E>(NAMES[o.b], def); return std::string("ok"); });
        case CREATE_SHARED: return with_slot(s, o.a, [&](auto &sl, auto def) { using P = typename std::decay_t<decltype(sl)>::value_type; using T = typename P::value_type; using E = typename P::EntityTagT; auto r = m->create_shared_property<T, E>(NAMES[o.b], def); if (!r) return std::string("nullopt"); sl = *r; return std::string("ok"); });
        case CREATE_PERSISTENT: return with_slot(s, o.a, [&](auto &sl, auto def) { using P = typename std::decay_t<decltype(sl)>::value_type; using T = typename P::value_type; using E = typename P::EntityTagT; auto r = m->create_persistent_property<T, E>(NAMES[o.b], def); if (!r) return std::string("nullopt"); sl = *r; return std::string("ok"); });
        case CREATE_PRIVATE: return with_slot(s, o.a, [&](auto &sl, auto def) { using P = typename std::decay_t<decltype(sl)>::value_type; using T = typename P::value_type; using E = typename P::EntityTagT; sl = m->create_private_property<T, E>(NAMES[o.b], def); return std::string("ok"); });
        case GET: return with_slot(s, o.a, [&](auto &sl, auto) { using P = typename std::decay_t<decltype(sl)>::value_type; using T = typename P::value_type; using E = typename P::EntityTagT; auto r = m->get_property<T, E>(NAMES[o.b]); if (!r) return std::string("nullopt"); sl = *r; return std::string("ok"); });
        case SET_SHARED: return with_slot(s, o.a, [&](auto &sl, auto) { m->set_shared(*sl, o.b != 0); return std::string("ok"); });
        case SET_PERSISTENT: return with_slot(s, o.a, [&](auto &sl, auto) { m->set_persistent(*sl, o.b != 0); return std::string("ok"); });
        case SET_NAME: return with_slot(s, o.a, [&](auto &sl, auto) { sl->set_name(NAMES[o.b]); return std::string("ok"); });
        case COPY: return with_pair(s, o.a, [&](auto &x, auto &y) { if (o.b == 0) y = x; else x = y; return std::string("ok"); });
        case MOVE: return with_pair(s, o.a, [&](auto &x, auto &y) { if (o.b == 0) { y = std::move(x); x.reset(); } else { x = std::move(y); y.reset(); } return std::string("ok"); });
        case DROP: return with_slot(s, o.a, [&](auto &sl, auto) { sl.reset(); return std::string("ok"); });
        case CLEAR_PROPS: if (o.a == 0) m->clear_vertex_props(); else m->clear_halfedge_props(); return "ok";
        case CLEAR_ALL: m->clear_all_props(); return "ok";
        case CLEAR: m->clear(o.a != 0); return "ok";
        case ADD_VERTEX: m->add_vertex(); return "ok";
        case ADD_EDGE: m->add_edge(VertexHandle(0), VertexHandle(1), true); return "ok";
        case MESH_COPY: s.mesh[1 - act] = std::make_unique<Mesh>(*m); return "ok";
        case MESH_ASSIGN: *s.mesh[1 - act] = *m; return "ok";
        case SELF_ASSIGN: { Mesh &r = *m; *m = r; return "ok"; }
        case DESTROY: s.mesh[o.a].reset(); return "ok";
        case SWITCH: return "ok";
        }
    } catch (std::runtime_error &e) { return "throw:runtime_error"; }
    catch (std::exception &e) { return std::string("throw:") + e.what(); }
    return "?";
}

// applies op to the model; returns the expected outcome ("ok", "nullopt", "refuse" = nullopt-or-throw with state unchanged, "throw")
static std::string model_apply(Model &M, const Op &o) {
    int act = M.active;
    auto newrec = [&](int tk, const std::string &name, bool shared, bool persistent) { Rec r{M.next_id++, tk, name, shared, persistent, act, M.n_of(tk, act)}; M.recs.push_back(r); return r.id; };
    switch (o.k) {
    case REQUEST: { int tk = o.a / 2; std::string n = NAMES[o.b]; Rec *f = M.find(act, tk, n); int id = f ? f->id : newrec(tk, n, !n.empty(), false); M.slot[o.a] = id; M.reap(); return "ok"; }
    case CREATE_SHARED: case CREATE_PERSISTENT: {
        int tk = o.a / 2; std::string n = NAMES[o.b];
        if (n.empty()) return "refuse";
        if (M.find(act, tk, n)) return "nullopt";
        M.slot[o.a] = newrec(tk, n, true, o.k == CREATE_PERSISTENT); M.reap(); return "ok";
    }
    case CREATE_PRIVATE: { M.slot[o.a] = newrec(o.a / 2, NAMES[o.b], false, false); M.reap(); return "ok"; }
    case GET: { Rec *f = M.find(act, o.a / 2, NAMES[o.b]); if (!f) return "nullopt"; M.slot[o.a] = f->id; M.reap(); return "ok"; }
    case SET_SHARED: {
        Rec *r = M.rec(M.slot[o.a]);
        if ((o.b != 0) == r->shared) return "ok";
        if (o.b) { if (r->name.empty()) return "throw"; if (M.find(act, r->tk, r->name)) return "throw"; r->shared = true; }
        else { r->persistent = false; r->shared = false; }
        return "ok";
    }
    case SET_PERSISTENT: {
        Rec *r = M.rec(M.slot[o.a]);
        if ((o.b != 0) == r->persistent) return "ok";
        if (o.b) { if (!r->shared) return "throw"; r->persistent = true; } else r->persistent = false;
        return "ok";
    }
    case SET_NAME: {
        Rec *r = M.rec(M.slot[o.a]);
        std::string n = NAMES[o.b];
        if (r->shared) {  // the flag survives detachment; uniqueness only matters while attached to a registry
            if (n == r->name) return "ok";
            if (n.empty()) return "throw";
            if (r->mesh >= 0) { Rec *f = M.find(r->mesh, r->tk, n); if (f && f != r) return "throw"; }
        }
        r->name = n;
        return "ok";
    }
    case COPY: { int a = 2 * o.a + (o.b ? 1 : 0), b = 2 * o.a + (o.b ? 0 : 1); M.slot[b] = M.slot[a]; M.reap(); return "ok"; }
    case MOVE: { int a = 2 * o.a + (o.b ? 1 : 0), b = 2 * o.a + (o.b ? 0 : 1); M.slot[b] = M.slot[a]; M.slot[a] = -1; M.reap(); return "ok"; }
    case DROP: M.slot[o.a] = -1; M.reap(); return "ok";
    case CLEAR_PROPS: M.unpersist_unshare(act, o.a); return "ok";
    case CLEAR_ALL: M.unpersist_unshare(act, -1); return "ok";
    case CLEAR: if (o.a) M.unpersist_unshare(act, -1); M.nV[act] = M.nE[act] = 0; for (auto &r : M.recs) if (r.mesh == act) r.size = 0; return "ok";
    case ADD_VERTEX: M.nV[act]++; for (auto &r : M.recs) if (r.mesh == act && r.tk != 2) r.size++; return "ok";
    case ADD_EDGE: M.nE[act]++; for (auto &r : M.recs) if (r.mesh == act && r.tk == 2) r.size += 2; return "ok";
    case MESH_COPY: case MESH_ASSIGN: {
        int dst = 1 - act;
        if (o.k == MESH_COPY) { for (auto &r : M.recs) if (r.mesh == dst) r.mesh = -1; M.reap(); }  // the old object (if any) is destroyed
        else { M.unpersist_unshare(dst, -1); }
        M.alive[dst] = true; M.nV[dst] = M.nV[act]; M.nE[dst] = M.nE[act];
        if (o.k == MESH_ASSIGN) for (auto &r : M.recs) if (r.mesh == dst) r.size = M.n_of(r.tk, dst);
        std::vector<Rec> clones;
        for (auto &r : M.recs) if (r.mesh == act && r.persistent) { Rec c = r; c.id = M.next_id++; c.mesh = dst; clones.push_back(c); }
        for (auto &c : clones) M.recs.push_back(c);
        return "ok";
    }
    case SELF_ASSIGN: return "ok";
    case DESTROY: { for (auto &r : M.recs) if (r.mesh == o.a) r.mesh = -1; M.alive[o.a] = false; M.nV[o.a] = M.nE[o.a] = 0; M.reap(); if (M.active == o.a) M.active = 1 - o.a; return "ok"; }
    case SWITCH: M.active = 1 - M.active; return "ok";
    }
    return "?";
}

static std::vector<Op> menu(const Model &M, int nnames, bool two_meshes) {
    std::vector<Op> r;
    int act = M.active;
    Model &MM = const_cast<Model &>(M);
    for (int sl = 0; sl < NSLOT; ++sl) for (int n = 0; n < nnames; ++n) { r.push_back({REQUEST, sl, n}); r.push_back({CREATE_SHARED, sl, n}); r.push_back({CREATE_PERSISTENT, sl, n}); r.push_back({CREATE_PRIVATE, sl, n}); r.push_back({GET, sl, n}); }
    for (int sl = 0; sl < NSLOT; ++sl) {
        if (M.slot[sl] < 0) continue;
        Rec *rec = MM.rec(M.slot[sl]);
        if (rec->mesh == act) { for (int b = 0; b < 2; ++b) { r.push_back({SET_SHARED, sl, b}); r.push_back({SET_PERSISTENT, sl, b}); } }
        if (rec->mesh == act || rec->mesh < 0) for (int n = 0; n < nnames; ++n) r.push_back({SET_NAME, sl, n});
        r.push_back({DROP, sl, 0});
    }
    for (int tk = 0; tk < NTK; ++tk) for (int d = 0; d < 2; ++d) { r.push_back({COPY, tk, d}); if (M.slot[2 * tk + d] >= 0) r.push_back({MOVE, tk, d}); }
    r.push_back({CLEAR_PROPS, 0, 0}); r.push_back({CLEAR_PROPS, 1, 0}); r.push_back({CLEAR_ALL, 0, 0}); r.push_back({CLEAR, 1, 0}); r.push_back({CLEAR, 0, 0});
    if (M.nV[act] < 2) r.push_back({ADD_VERTEX, 0, 0});
    if (M.nV[act] >= 2 && M.nE[act] < 1) r.push_back({ADD_EDGE, 0, 0});
    if (two_meshes) {
        r.push_back({MESH_COPY, 0, 0});
        if (M.alive[1 - act]) { r.push_back({MESH_ASSIGN, 0, 0}); r.push_back({SWITCH, 0, 0}); }
        r.push_back({SELF_ASSIGN, 0, 0});
        if (M.alive[1 - act]) r.push_back({DESTROY, 1 - act, 0});
        if (M.alive[1 - act]) r.push_back({DESTROY, act, 0});
    }
    return r;
}

// ---------------------------------------------------------------------------------------------- observation & comparison
template <class E> static void obs_mesh(const Mesh &m, std::ostream &o) {
    o << m.n_props<E>() << '/' << m.n_persistent_props<E>() << '[';
    std::vector<std::string> names;
    for (auto it = m.persistent_props_begin<E>(); it != m.persistent_props_end<E>(); ++it) names.push_back((*it)->name() + ":" + ((*it)->shared() ? "s" : "-") + ((*it)->persistent() ? "p" : "-"));
    std::sort(names.begin(), names.end());
    for (auto &n : names) o << n << ',';
    o << ']';
}
static std::string observe(Sut &s) {
    std::ostringstream o;
    for (int m = 0; m < 2; ++m) {
        if (!s.mesh[m]) { o << "M" << m << ":dead "; continue; }
        o << "M" << m << ":V"; obs_mesh<Entity::Vertex>(*s.mesh[m], o);
        o << " HE"; obs_mesh<Entity::HalfEdge>(*s.mesh[m], o);
        o << " E" << s.mesh[m]->n_props<Entity::Edge>() << " ex";
        for (int n = 1; n < 3; ++n) o << s.mesh[m]->property_exists<int, Entity::Vertex>(NAMES[n]) << s.mesh[m]->property_exists<std::string, Entity::Vertex>(NAMES[n]) << s.mesh[m]->property_exists<int, Entity::HalfEdge>(NAMES[n]);
        o << " nv" << s.mesh[m]->n_vertices() << " ";
    }
    std::vector<const void *> ptrs;
    for (int sl = 0; sl < NSLOT; ++sl) with_slot(s, sl, [&](auto &p, auto) {
        if (!p) { o << "S" << sl << ":- "; ptrs.push_back(nullptr); return 0; }
        const void *st = p->storage().get();
        int alias = -1;
        for (size_t i = 0; i < ptrs.size(); ++i) if (ptrs[i] == st) alias = (int)i;
        ptrs.push_back(st);
        o << "S" << sl << ":" << (alias >= 0 ? "=" + std::to_string(alias) : "new") << " '" << p->name() << "' " << (p->shared() ? "s" : "-") << (p->persistent() ? "p" : "-") << (p->anonymous() ? "a" : "-") << (bool(*p) ? "A" : "D") << " n" << p->size() << " ";
        return 0;
    });
    return o.str();
}
static std::string expect(Model &M) {
    std::ostringstream o;
    for (int m = 0; m < 2; ++m) {
        if (!M.alive[m]) { o << "M" << m << ":dead "; continue; }
        auto kind = [&](bool he) {
            int n = 0, np = 0;
            std::vector<std::string> names;
            for (auto &r : M.recs) if (r.mesh == m && (r.tk == 2) == he) { ++n; if (r.persistent) { ++np; names.push_back(r.name + ":" + (r.shared ? "s" : "-") + "p"); } }
            std::sort(names.begin(), names.end());
            o << n << '/' << np << '[';
            for (auto &x : names) o << x << ',';
            o << ']';
        };
        o << "M" << m << ":V"; kind(false); o << " HE"; kind(true);
        o << " E0 ex";
        for (int n = 1; n < 3; ++n) for (int tk = 0; tk < 3; ++tk) o << (M.find(m, tk, NAMES[n]) != nullptr);
        o << " nv" << M.nV[m] << " ";
    }
    std::vector<int> ids;
    for (int sl = 0; sl < NSLOT; ++sl) {
        int id = M.slot[sl];
        if (id < 0) { o << "S" << sl << ":- "; ids.push_back(-1); continue; }
        int alias = -1;
        for (size_t i = 0; i < ids.size(); ++i) if (ids[i] == id) alias = (int)i;
        ids.push_back(id);
        Rec *r = M.rec(id);
        o << "S" << sl << ":" << (alias >= 0 ? "=" + std::to_string(alias) : "new") << " '" << r->name << "' " << (r->shared ? "s" : "-") << (r->persistent ? "p" : "-") << (r->name.empty() ? "a" : "-") << (r->mesh >= 0 ? "A" : "D") << " n" << r->size << " ";
    }
    return o.str();
}
// registry invariant I on the real objects: persistent => shared => named and unique (per mesh, kind, type)
static std::string invariant(Sut &s) {
    std::ostringstream o;
    for (int m = 0; m < 2; ++m) {
        if (!s.mesh[m]) continue;
        const ResourceManager &rm = *s.mesh[m];
        for (int et = 0; et < (int)n_entity_types; ++et) {
            std::set<std::string> seen;
            for (auto *p : rm.storage_trackers_.get((EntityType)et)) {
                if (p->persistent() && !p->shared()) o << "persistent but not shared: '" << p->name() << "'; ";
                if (p->shared() && p->name().empty()) o << "shared but anonymous; ";
                if (p->shared() && !seen.insert(p->name() + "|" + p->internal_type_name()).second) o << "two shared properties named '" << p->name() << "' of the same type; ";
                if (p->persistent() && !rm.persistent_props_.get((EntityType)et).count(p->shared_from_this())) o << "persistent flag set but not owned by the mesh: '" << p->name() << "'; ";
            }
            for (auto &sp : rm.persistent_props_.get((EntityType)et)) if (!sp->persistent()) o << "owned by the mesh but persistent flag clear: '" << sp->name() << "'; ";
        }
    }
    return o.str();
}

static std::string jesc(const std::string &s) { std::string r; for (char c : s) { if (c == '"' || c == '\\') { r += '\\'; r += c; } else if ((unsigned char)c < 32) r += ' '; else r += c; } return r; }

int main(int argc, char **argv) {
    signal(SIGABRT, crash_handler); signal(SIGSEGV, crash_handler); signal(SIGBUS, crash_handler);
    int depth = 3, nnames = 2, part = 0, nparts = 1;
    bool two = true, has_replay = false;
    std::string out, replay;
    std::set<std::string> known;
    double deadline = 0;
    for (int i = 1; i < argc; ++i) {
        std::string k = argv[i];
        auto nxt = [&]() { return std::string(i + 1 < argc ? argv[++i] : ""); };
        if (k == "--depth") depth = std::stoi(nxt());
        else if (k == "--names") nnames = std::stoi(nxt());
        else if (k == "--single-mesh") two = false;
        else if (k == "--out") out = nxt();
        else if (k == "--replay") { replay = nxt(); has_replay = true; }
        else if (k == "--deadline") deadline = std::stod(nxt());
        else if (k == "--part") { std::string p = nxt(); sscanf(p.c_str(), "%d/%d", &part, &nparts); }
        else if (k == "--known") { std::string c = nxt(); size_t p = 0; while (p <= c.size()) { size_t q = c.find(',', p); if (q == std::string::npos) q = c.size(); if (q > p) known.insert(c.substr(p, q - p)); p = q + 1; } }
    }
    auto t0 = std::chrono::steady_clock::now();
    auto elapsed = [&]() { return std::chrono::duration<double>(std::chrono::steady_clock::now() - t0).count(); };

    // one step: replay h on fresh objects + model, then apply o, compare.  Returns violations.
    auto step = [&](const Hist &h, const Op *o, Model &M, std::vector<Viol> &vs) {
        Sut s;
        for (auto &p : h) { exec(s, M, p); model_apply(M, p); }
        if (!o) return;
        Model pre = M;
        std::string before = observe(s);
        std::string got = exec(s, M, *o);
        std::string exp = model_apply(M, *o);
        std::string what = std::string(OPN[o->k]);
        bool refused = got == "nullopt" || got.rfind("throw", 0) == 0;
        if (exp == "refuse" || exp == "throw") {
            if (!refused) vs.push_back({"c14:must-" + exp + ":" + what, o->str() + " returned '" + got + "' although it would break persistent => shared => named-and-unique"});
            else if (exp == "throw" && got.rfind("throw", 0) != 0) vs.push_back({"c14:must-throw:" + what, o->str() + " returned '" + got + "'"});
            else { M = pre; std::string after = observe(s); if (after != before) vs.push_back({"c14:refused-but-changed:" + what, o->str() + ": before {" + before + "} after {" + after + "}"}); }
            if (!vs.empty()) { M = pre; }
        } else if (exp != got) vs.push_back({"c14:result:" + what, o->str() + " gave '" + got + "', expected '" + exp + "'"});
        if (vs.empty()) {
            std::string a = observe(s), e = expect(M);
            if (a != e) vs.push_back({"c14:observables:" + what, o->str() + ": observed {" + a + "} expected {" + e + "}"});
            std::string inv = invariant(s);
            if (!inv.empty()) vs.push_back({"c14:invariant:" + what, o->str() + ": " + inv});
        }
        // destruction in the remaining order (slots, then meshes) is exercised by ~Sut under ASan; also the reverse order:
        if (vs.empty() && (h.size() % 2)) { s.mesh[0].reset(); s.mesh[1].reset(); }
    };

    if (has_replay) {
        Hist h;
        if (!hist_parse(replay, h)) return 2;
        set_ctx("history=" + hist_str(h));
        for (size_t i = 0; i < h.size(); ++i) {
            Model M;
            std::vector<Viol> vs;
            Hist pre(h.begin(), h.begin() + i);
            step(pre, &h[i], M, vs);
            for (auto &v : vs) printf("REPLAY-VIOLATION rule=%s detail=%s\n", v.rule.c_str(), v.detail.c_str());
            if (!vs.empty()) return 1;
        }
        printf("REPLAY-OK\n");
        return 0;
    }

    std::unordered_set<std::string> seen;
    std::vector<Hist> frontier{{}}, next;
    { Model M; seen.insert(M.key()); }
    size_t states = 1, transitions = 0, maxb = 0;
    std::vector<std::pair<Hist, Viol>> found;
    std::map<std::string, std::pair<Hist, Viol>> known_found;
    std::set<std::string> outcomes;
    std::vector<std::string> samples;
    bool capped = false;
    int completed = 0;
    for (int level = 0; level < depth && found.empty() && !capped; ++level) {
        next.clear();
        for (size_t fi = 0; fi < frontier.size() && found.empty(); ++fi) {
            if (level == 0 && nparts > 1) {}
            const Hist &h = frontier[fi];
            Model M0;
            { std::vector<Viol> vs; step(h, nullptr, M0, vs); }
            auto ops = menu(M0, nnames, two);
            maxb = std::max(maxb, ops.size());
            for (size_t oi = 0; oi < ops.size(); ++oi) {
                if (level == 0 && (int)(oi % nparts) != part) continue;  // partition the search by the first operation
                Hist h2 = h; h2.push_back(ops[oi]);
                set_ctx("history=" + hist_str(h2));
                Model M;
                std::vector<Viol> vs;
                step(h, &ops[oi], M, vs);
                ++transitions;
                if (!vs.empty()) {
                    const Viol *nv = nullptr;
                    for (auto &v : vs) { if (known.count(v.rule)) { if (!known_found.count(v.rule)) known_found[v.rule] = {h2, v}; } else if (!nv) nv = &v; }
                    if (nv) { found.push_back({h2, *nv}); break; }
                    continue;  // a state in which only a listed known finding fails is not expanded
                }
                outcomes.insert(std::string(OPN[ops[oi].k]));
                if (seen.insert(M.key()).second) {
                    ++states;
                    if (level + 1 < depth) next.push_back(h2);
                    if (samples.size() < 3 && states % 211 == 7) samples.push_back(hist_str(h2));
                }
            }
            if (deadline > 0 && elapsed() > deadline) { capped = true; break; }
        }
        if (found.empty() && !capped) completed = level + 1;
        frontier.swap(next);
    }
    if (samples.empty() && !frontier.empty()) samples.push_back(hist_str(frontier[0]));
    std::ostringstream o;
    o << "{\"prop\":\"C14\",\"states\":" << states << ",\"transitions\":" << transitions << ",\"completed_depth\":" << completed << ",\"capped\":" << (capped ? "true" : "false")
      << ",\"max_branching\":" << maxb << ",\"wall_s\":" << elapsed() << ",\"checks\":{\"model-compare\":" << transitions << "},\"distinct_outcomes\":{\"operation-kinds\":" << outcomes.size() << "},\"samples\":[";
    for (size_t i = 0; i < samples.size(); ++i) o << (i ? "," : "") << "\"" << jesc(samples[i]) << "\"";
    o << "],\"violations\":[";
    for (size_t i = 0; i < found.size(); ++i) o << (i ? "," : "") << "{\"history\":\"" << jesc(hist_str(found[i].first)) << "\",\"rule\":\"" << jesc(found[i].second.rule) << "\",\"detail\":\"" << jesc(found[i].second.detail.substr(0, 1500)) << "\"}";
    o << "],\"known\":[";
    bool f1 = true;
    for (auto &kv : known_found) { o << (f1 ? "" : ",") << "{\"history\":\"" << jesc(hist_str(kv.second.first)) << "\",\"rule\":\"" << jesc(kv.first) << "\",\"detail\":\"" << jesc(kv.second.second.detail.substr(0, 600)) << "\"}"; f1 = false; }
    o << "]}";
    if (!out.empty()) { std::ofstream f(out); f << o.str() << "\n"; } else printf("%s\n", o.str().c_str());
    return found.empty() ? 0 : 1;
}
