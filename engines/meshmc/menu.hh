// Alphabets: the menu of operations offered in a state (computed from the state, simplest first).
#pragma once
#include "brute.hh"

namespace mc {

enum AlphaBits : unsigned {
    A_ADDV = 1, A_ADDE = 2, A_ADDF = 4, A_ADDC = 8, A_SET = 16, A_DEL = 32, A_SWAP = 64, A_GC = 128, A_CLEAR = 256,
    A_MODE = 512, A_BU = 1024, A_PROP = 2048, A_ADDFHE = 4096, A_ADDCV = 8192, A_SWAPFEW = 16384, A_GCOP = 32768, A_COLLAPSE = 65536, A_PERM = 131072, A_DELC = 262144,
    A_FULL = A_ADDV | A_ADDE | A_ADDF | A_ADDC | A_SET | A_DEL | A_SWAP | A_GC | A_CLEAR | A_MODE | A_BU | A_ADDFHE,
    A_RESTRICTED = A_DEL | A_SWAP | A_GC | A_MODE | A_BU,
    A_DELETION = A_ADDV | A_ADDE | A_ADDF | A_ADDC | A_DEL | A_GC | A_CLEAR | A_MODE,
};

struct Caps { int v = 8, e = 16, f = 12, c = 4, lf = 3, lc = 4, pool = 8; };

inline bool closed_loop(const Bf &bf, const std::vector<int> &hes) {
    if (hes.empty()) return false;
    for (size_t i = 0; i < hes.size(); ++i) if (bf.to(hes[i]) != bf.from(hes[(i + 1) % hes.size()])) return false;
    return true;
}
// closed surface: every halfedge of the listed halffaces is matched exactly once by its opposite
inline bool closed_surface(const Bf &bf, const std::vector<int> &hfs) {
    if (hfs.empty()) return false;
    std::map<int, int> cnt;
    for (int hf : hfs) for (int he : bf.hfhe[hf]) cnt[he]++;
    for (auto &kv : cnt) if (kv.second != 1 || !cnt.count(kv.first ^ 1)) return false;
    return true;
}

inline void enum_loops(const Bf &bf, size_t maxlen, std::vector<std::vector<int>> &out) {
    // all closed halfedge loops of length 1..maxlen over live halfedges, modulo rotation (smallest handle first)
    std::vector<int> live;
    for (int he = 0; he < 2 * bf.ne; ++he) if (!bf.edel[he / 2]) live.push_back(he);
    std::vector<int> cur;
    std::function<void()> rec = [&]() {
        if (!cur.empty() && bf.to(cur.back()) == bf.from(cur[0])) out.push_back(cur);
        if (cur.size() == maxlen) return;
        for (int he : live) {
            if (!cur.empty() && (he < cur[0] || bf.from(he) != bf.to(cur.back()))) continue;
            if (std::count(cur.begin(), cur.end(), he)) continue;  // a halfedge at most once per loop
            cur.push_back(he); rec(); cur.pop_back();
        }
    };
    rec();
}

inline void enum_surfaces(const Bf &bf, size_t maxn, std::vector<std::vector<int>> &out, const std::vector<int> *also_free = nullptr) {
    // all closed surfaces over free halffaces (no live cell lists them) with <= maxn halffaces, ascending order
    std::vector<int> fr;
    for (int hf = 0; hf < 2 * bf.nf; ++hf) {
        if (bf.fdel[hf / 2]) continue;
        if (bf.cells_of_hf[hf].empty() || (also_free && std::count(also_free->begin(), also_free->end(), hf))) fr.push_back(hf);
    }
    std::vector<int> cur;
    std::map<int, int> cnt;
    std::function<void(size_t)> rec = [&](size_t start) {
        if (!cur.empty()) {
            bool ok = true;
            for (auto &kv : cnt) if (kv.second && (kv.second != 1 || !cnt.count(kv.first ^ 1) || cnt[kv.first ^ 1] != 1)) { ok = false; break; }
            if (ok) out.push_back(cur);
        }
        if (cur.size() == maxn) return;
        for (size_t i = start; i < fr.size(); ++i) {
            int hf = fr[i];
            bool clash = false;
            for (int he : bf.hfhe[hf]) if (cnt[he] > 0) clash = true;
            if (clash) continue;
            for (int he : bf.hfhe[hf]) cnt[he]++;
            cur.push_back(hf); rec(i + 1); cur.pop_back();
            for (int he : bf.hfhe[hf]) cnt[he]--;
        }
    };
    rec(0);
}

// C11: argument lists over live handles that need not be valid: every tuple of length 0..lf (faces) / 0..lc (cells)
// over the first `pool` live halfedges / halffaces, always with topology check; add_edge over all ordered vertex pairs.
inline std::vector<Op> menu_c11(const Sys &s, const Bf &bf, const Caps &caps) {
    std::vector<Op> r;
    std::vector<int> lv, lhe, lhf;
    for (int i = 0; i < bf.nv; ++i) if (!bf.vdel[i]) lv.push_back(i);
    for (int i = 0; i < 2 * bf.ne && (int)lhe.size() < caps.pool; ++i) if (!bf.edel[i / 2]) lhe.push_back(i);
    for (int i = 0; i < 2 * bf.nf && (int)lhf.size() < caps.pool; ++i) if (!bf.fdel[i / 2]) lhf.push_back(i);
    // take the pool from the *end* as well when the mesh is larger (different faces / cells)
    for (int a : lv) for (int b : lv) { r.push_back(Op(ADD_EDGE, {a, b, 0})); }
    if (!lv.empty()) r.push_back(Op(ADD_EDGE, {lv[0], lv.back(), 1}));
    std::vector<int> cur;
    std::function<void(const std::vector<int> &, int, OpK)> rec = [&](const std::vector<int> &pool, int maxlen, OpK k) {
        std::vector<int> a{1};
        a.insert(a.end(), cur.begin(), cur.end());
        r.push_back(Op(k, a));
        if ((int)cur.size() == maxlen) return;
        for (int h : pool) { cur.push_back(h); rec(pool, maxlen, k); cur.pop_back(); }
    };
    rec(lhe, caps.lf, ADD_FACE_HE);
    rec(lhf, caps.lc, ADD_CELL_HF);
    return r;
}

inline std::vector<Op> menu(const Sys &s, const Bf &bf, unsigned alpha, const Caps &caps) {
    std::vector<Op> r;
    const Mesh &m = s.m;
    std::vector<int> lv, le, lf, lc;
    for (int i = 0; i < bf.nv; ++i) if (!bf.vdel[i]) lv.push_back(i);
    for (int i = 0; i < bf.ne; ++i) if (!bf.edel[i]) le.push_back(i);
    for (int i = 0; i < bf.nf; ++i) if (!bf.fdel[i]) lf.push_back(i);
    for (int i = 0; i < bf.nc; ++i) if (!bf.cdel[i]) lc.push_back(i);
#if defined(MC_HEX)
    const size_t face_val = 4;
#else
    const size_t face_val = 3;
#endif
    if ((alpha & A_ADDV) && bf.nv < caps.v) {
        r.push_back(Op(ADD_VERTEX, {}));
        if (bf.nv + 2 <= caps.v) r.push_back(Op(ADD_N_VERTICES, {2}));
    }
    if ((alpha & A_ADDE) && bf.ne < caps.e)
        for (int a : lv) for (int b : lv) for (int dup = 0; dup < 2; ++dup) r.push_back(Op(ADD_EDGE, {a, b, dup}));
    if ((alpha & A_ADDF) && bf.nf < caps.f && bf.ne + (int)face_val <= caps.e + 4) {
        // ordered vertex tuples modulo rotation (smallest first), distinct vertices
        std::vector<int> cur;
        std::function<void()> rec = [&]() {
            if (cur.size() == face_val) { r.push_back(Op(ADD_FACE_V, cur)); return; }
            for (int v : lv) {
                if (!cur.empty() && v <= cur[0]) continue;
                if (std::count(cur.begin(), cur.end(), v)) continue;
                cur.push_back(v); rec(); cur.pop_back();
            }
        };
        for (int v : lv) { cur = {v}; rec(); }
#if defined(MC_POLY)
        for (int a : lv) for (int b : lv) if (a < b) r.push_back(Op(ADD_FACE_V, {a, b}));  // 2-gons
#endif
    }
    if ((alpha & A_ADDFHE) && bf.nf < caps.f) {
        std::vector<std::vector<int>> loops;
        enum_loops(bf, face_val, loops);
        for (auto &l : loops) {
#if defined(MC_TET)
            if (l.size() != 3) continue;
#elif defined(MC_HEX)
            if (l.size() != 4) continue;
#endif
            for (int chk = 0; chk < 2; ++chk) { std::vector<int> a{chk}; a.insert(a.end(), l.begin(), l.end()); r.push_back(Op(ADD_FACE_HE, a)); }
        }
    }
    if ((alpha & A_ADDC) && bf.nc < caps.c) {
        std::vector<std::vector<int>> surfs;
#if defined(MC_HEX)
        enum_surfaces(bf, 6, surfs);
#else
        enum_surfaces(bf, 6, surfs);
#endif
        for (auto &sf : surfs) {
#if defined(MC_TET)
            if (sf.size() != 4) continue;
#elif defined(MC_HEX)
            if (sf.size() != 6) continue;
#endif
            for (int chk = 0; chk < 2; ++chk) {
#if defined(MC_HEX)
                if (!chk) continue;  // without the check the hex kernel trusts the caller's order (C16 covers orders)
#endif
                std::vector<int> a{chk}; a.insert(a.end(), sf.begin(), sf.end()); r.push_back(Op(ADD_CELL_HF, a));
            }
        }
    }
    if (alpha & A_SET) {
        // set_edge: only edges used by no live face (any live end points), or the current end points
        for (int e : le) {
            bool used = !bf.hfs_of_he[2 * e].empty() || !bf.hfs_of_he[2 * e + 1].empty();
            if (used) { r.push_back(Op(SET_EDGE, {e, bf.ev[e][0], bf.ev[e][1]})); continue; }
            for (int a : lv) for (int b : lv) r.push_back(Op(SET_EDGE, {e, a, b}));
        }
#if defined(MC_POLY)
        // set_face: closed loops; other than rotations of the current cycle only while no live cell uses the face
        std::vector<std::vector<int>> loops;
        enum_loops(bf, 3, loops);
        for (int f : lf) {
            bool in_cell = !bf.cells_of_hf[2 * f].empty() || !bf.cells_of_hf[2 * f + 1].empty();
            auto cur = bf.hfhe[2 * f];
            for (size_t rot = 0; rot < cur.size(); ++rot) {
                std::vector<int> a{f};
                for (size_t i = 0; i < cur.size(); ++i) a.push_back(cur[(i + rot) % cur.size()]);
                r.push_back(Op(SET_FACE, a));
            }
            if (!in_cell)
                for (auto &l : loops) { std::vector<int> a{f}; a.insert(a.end(), l.begin(), l.end()); r.push_back(Op(SET_FACE, a)); }
        }
        // set_cell: closed surfaces over halffaces that are free or already the cell's
        for (int c : lc) {
            std::vector<std::vector<int>> surfs;
            enum_surfaces(bf, 6, surfs, &bf.chf[c]);
            for (auto &sf : surfs) { std::vector<int> a{c}; a.insert(a.end(), sf.begin(), sf.end()); r.push_back(Op(SET_CELL, a)); }
        }
#endif
    }
    if ((alpha & A_DELC) && !(alpha & A_DEL)) for (int c : lc) r.push_back(Op(DEL_C, {c}));  // delete_cell only
    if (alpha & A_DEL) {
        for (int c : lc) r.push_back(Op(DEL_C, {c}));
        for (int f : lf) r.push_back(Op(DEL_F, {f}));
        for (int e : le) r.push_back(Op(DEL_E, {e}));
        for (int v : lv) r.push_back(Op(DEL_V, {v}));
    }
    if (alpha & A_SWAP) {
        for (int a = 0; a < bf.nc; ++a) for (int b = a; b < bf.nc; ++b) r.push_back(Op(SWAP_C, {a, b}));
        for (int a = 0; a < bf.nf; ++a) for (int b = a; b < bf.nf; ++b) r.push_back(Op(SWAP_F, {a, b}));
        for (int a = 0; a < bf.ne; ++a) for (int b = a; b < bf.ne; ++b) r.push_back(Op(SWAP_E, {a, b}));
        for (int a = 0; a < bf.nv; ++a) for (int b = a; b < bf.nv; ++b) r.push_back(Op(SWAP_V, {a, b}));
    }
    if ((alpha & A_SWAPFEW) && !(alpha & A_SWAP)) {  // neighbouring slots and first<->last only (C17 covers all pairs)
        auto few = [&](OpK k, int n) { for (int a = 0; a + 1 < n; ++a) r.push_back(Op(k, {a, a + 1})); if (n > 2) r.push_back(Op(k, {0, n - 1})); };
        few(SWAP_C, bf.nc); few(SWAP_F, bf.nf); few(SWAP_E, bf.ne); few(SWAP_V, bf.nv);
    }
    if (alpha & A_GC) r.push_back(Op(GC, {}));
    if (alpha & A_CLEAR) { r.push_back(Op(CLEAR, {1})); r.push_back(Op(CLEAR, {0})); }
    if (alpha & A_MODE) {
        r.push_back(Op(DEFER, {!m.deferred_deletion_enabled()}));
        r.push_back(Op(FAST, {!m.fast_deletion_enabled()}));
    }
    if (alpha & A_BU) {
        r.push_back(Op(VBU, {!m.has_vertex_bottom_up_incidences()}));
        r.push_back(Op(EBU, {!m.has_edge_bottom_up_incidences()}));
        r.push_back(Op(FBU, {!m.has_face_bottom_up_incidences()}));
    }
    if ((alpha & A_PROP) && s.cfg.props && !s.late_created) r.push_back(Op(PROP_NEW, {}));
    if (alpha & A_GCOP) {
        // every set of <= caps.lf marks over all live entities of any kind x every applicable collection mode
        std::vector<int> ents;
        for (int v : lv) ents.push_back(v);
        for (int e : le) ents.push_back(1000 + e);
        for (int f : lf) ents.push_back(2000 + f);
        for (int c : lc) ents.push_back(3000 + c);
        std::vector<int> modes;
        if (m.deferred_deletion_enabled()) { modes.push_back(0); modes.push_back(1); }
        for (int k = 2; k <= 5; ++k) modes.push_back(k);
        std::vector<int> cur;
        std::function<void(size_t)> rec = [&](size_t start) {
            for (int mode : modes) { std::vector<int> a{mode}; a.insert(a.end(), cur.begin(), cur.end()); r.push_back(Op(STATUS_GC, a)); }
            if ((int)cur.size() == caps.lf) return;
            for (size_t i = start; i < ents.size(); ++i) { cur.push_back(ents[i]); rec(i + 1); cur.pop_back(); }
        };
        rec(0);
    }
    return r;
}

}  // namespace mc
