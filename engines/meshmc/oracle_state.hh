// State-level oracles C05 (iterator / circulator protocol), C08 (mirror algebra), C09 (rotational order,
// in-cell adjacency), C10 (lookups): evaluated on every distinct reachable state.
#pragma once
#include "brute.hh"
#include "menu.hh"
#include "oracles_fwd.hh"

namespace mc {

enum RelKind { SEQ, SET, MULTI };

// ---------------------------------------------------------------------------------------------- C05
// mk(laps) -> begin circulator ; rg(laps) -> (begin,end) pair
template <class Mk, class Rg>
void circ_protocol(const std::string &name, int centre, Mk mk, Rg rg, const std::vector<int> &ref, RelKind kind, Viols &vs, Stats &st) {
    const size_t n = ref.size();
    st.hit("c05-circulators");
    for (int laps = 1; laps <= 3; ++laps) {
        auto it = mk(laps);
        if (n == 0) {
            if (it.valid()) VIOL(vs, "c05:empty-valid:" + name, name << "(" << centre << ") has nothing incident but is valid");
            auto p = rg(laps);
            if (!(p.first == p.second)) VIOL(vs, "c05:empty-range:" + name, name << "(" << centre << "): begin != end on an empty relation");
            continue;
        }
        // forward via the valid() protocol
        std::vector<int> seq;
        std::vector<decltype(it)> pos;
        for (auto c = it; c.valid(); ++c) {
            seq.push_back((*c).idx());
            pos.push_back(c);
            if (seq.size() > n * laps + 4) break;
        }
        if (seq.size() != n * laps) { VIOL(vs, "c05:length:" + name, name << "(" << centre << ", laps " << laps << ") visits " << seq.size() << " items, expected " << n * laps << ": " << vstr(seq)); return; }
        std::vector<int> lap0(seq.begin(), seq.begin() + n);
        if (kind == SEQ) { if (lap0 != ref) { VIOL(vs, "c05:sequence:" + name, name << "(" << centre << ") yields " << vstr(lap0) << " expected " << vstr(ref)); return; } }
        else {
            if (sorted(lap0) != sorted(ref)) { VIOL(vs, "c05:set:" + name, name << "(" << centre << ") yields " << vstr(lap0) << " expected (any order) " << vstr(sorted(ref))); return; }
            if (kind == SET) { auto s = sorted(lap0); if (std::adjacent_find(s.begin(), s.end()) != s.end()) { VIOL(vs, "c05:duplicates:" + name, name << "(" << centre << ") yields duplicates " << vstr(lap0)); return; } }
        }
        for (int l = 1; l < laps; ++l) if (!std::equal(lap0.begin(), lap0.end(), seq.begin() + l * n)) { VIOL(vs, "c05:laps:" + name, name << "(" << centre << ") lap " << l << " differs from lap 0: " << vstr(seq)); return; }
        // range: begin/end pair agrees with the valid() protocol; end == begin advanced past the last lap
        {
            auto p = rg(laps);
            std::vector<int> rs;
            for (auto c = p.first; c != p.second; ++c) { rs.push_back((*c).idx()); if (rs.size() > n * laps + 4) break; }
            if (rs != seq) { VIOL(vs, "c05:range:" + name, name << "(" << centre << ", laps " << laps << ") begin/end loop yields " << vstr(rs) << " but valid() loop " << vstr(seq)); return; }
            auto adv = p.first;
            for (size_t i = 0; i < n * laps; ++i) ++adv;
            if (!(adv == p.second)) { VIOL(vs, "c05:end:" + name, name << "(" << centre << ", laps " << laps << "): begin advanced n*laps times != end circulator"); return; }
        }
        // --(++it) restores handle and lap; equality when the forward step did not invalidate
        for (size_t k = 0; k < pos.size(); ++k) {
            auto c = pos[k];
            ++c; --c;
            if ((*c).idx() != seq[k] || c.lap() != pos[k].lap()) { VIOL(vs, "c05:undo:" + name, name << "(" << centre << ", laps " << laps << ") at step " << k << ": --(++it) gives handle " << (*c).idx() << " lap " << c.lap() << ", was " << seq[k] << " lap " << pos[k].lap()); return; }
            if (k + 1 < pos.size() && !(c == pos[k])) { VIOL(vs, "c05:undo-eq:" + name, name << "(" << centre << ", laps " << laps << ") at step " << k << ": --(++it) != it"); return; }
        }
        // backward from the last valid position: reversed sequence, then invalid
        {
            auto c = pos.back();
            std::vector<int> back{(*c).idx()};
            for (size_t k = 1; k < pos.size(); ++k) { --c; if (!c.valid()) { VIOL(vs, "c05:backward-early-invalid:" + name, name << "(" << centre << ") became invalid after " << k << " backward steps of " << pos.size() - 1); return; } back.push_back((*c).idx()); }
            std::vector<int> rev(seq.rbegin(), seq.rend());
            if (back != rev) { VIOL(vs, "c05:backward:" + name, name << "(" << centre << ", laps " << laps << ") backward yields " << vstr(back) << " expected " << vstr(rev)); return; }
            --c;
            if (c.valid()) { VIOL(vs, "c05:backward-past-begin:" + name, name << "(" << centre << ") is still valid after stepping back past the first element"); return; }
        }
    }
}

template <class Rng, class VIt>
void entity_iter_protocol(const std::string &name, Rng range, VIt viter, const std::vector<int> &live, Viols &vs, Stats &st) {
    st.hit("c05-entity-iterators");
    std::vector<int> a, b, c;
    for (auto it = range.first; it != range.second; ++it) { a.push_back((*it).idx()); if (a.size() > live.size() + 4) break; }
    for (auto it = viter; it.valid(); ++it) { b.push_back((*it).idx()); if (b.size() > live.size() + 4) break; }
    for (auto h : range) { c.push_back(h.idx()); if (c.size() > live.size() + 4) break; }
    if (a != live) VIOL(vs, "c05:entities:" + name, name << " begin/end visits " << vstr(a) << " expected " << vstr(live));
    if (b != live) VIOL(vs, "c05:entities-valid:" + name, name << " valid() loop visits " << vstr(b) << " expected " << vstr(live));
    if (c != live) VIOL(vs, "c05:entities-rangefor:" + name, name << " range-for visits " << vstr(c) << " expected " << vstr(live));
    if (live.empty()) { if (viter.valid()) VIOL(vs, "c05:entities-empty:" + name, name << " iterator valid on an empty set"); return; }
    // backward: --end() dereferences to the last live handle; walking back visits the reversed sequence, then invalid
    auto e = range.second;
    std::vector<int> back;
    --e;
    back.push_back((*e).idx());
    for (size_t k = 1; k < live.size(); ++k) { --e; back.push_back((*e).idx()); }
    std::vector<int> rev(live.rbegin(), live.rend());
    if (back != rev) VIOL(vs, "c05:entities-backward:" + name, name << " backward from end visits " << vstr(back) << " expected " << vstr(rev));
    --e;
    if (e.valid()) VIOL(vs, "c05:entities-backward-past-begin:" + name, name << " still valid before the first element");
    // the end iterator is not valid() and stepping back does not make it so, hence the same walk again from a VALID iterator (begin
    // advanced to the last live entity): it must visit the reversed sequence and then become invalid - in particular it must not stop
    // on a deferred-deleted entity at the front of the array
    {
        auto w = range.first;
        for (size_t k = 1; k < live.size(); ++k) ++w;
        std::vector<int> back2;
        size_t guard = 0;
        while (w.valid() && guard++ < live.size() + 4) { back2.push_back((*w).idx()); --w; }
        if (back2 != rev) VIOL(vs, "c05:entities-backward-valid:" + name, name << " backward from the last live entity (valid() loop) visits " << vstr(back2) << " expected " << vstr(rev));
    }
    // --(++it) restores the handle at every position
    size_t k = 0;
    for (auto it = range.first; it != range.second; ++it, ++k) {
        auto x = it; ++x; --x;
        if ((*x).idx() != live[k]) { VIOL(vs, "c05:entities-undo:" + name, name << " --(++it) at " << live[k] << " gives " << (*x).idx()); break; }
        if (k > live.size()) break;
    }
}

inline void check_c05(const Sys &s, const Bf &bf, Viols &vs, Stats &st) {
    const Mesh &m = s.m;
    if (bf.malformed || bf.hf_in_two_cells) return;
    const bool vbu = m.has_vertex_bottom_up_incidences(), ebu = m.has_edge_bottom_up_incidences(), fbu = m.has_face_bottom_up_incidences();
    std::vector<int> lv, le, lhe, lf, lhf, lc;
    for (int i = 0; i < bf.nv; ++i) if (!bf.vdel[i]) lv.push_back(i);
    for (int i = 0; i < bf.ne; ++i) if (!bf.edel[i]) { le.push_back(i); }
    for (int i = 0; i < 2 * bf.ne; ++i) if (!bf.edel[i / 2]) lhe.push_back(i);
    for (int i = 0; i < bf.nf; ++i) if (!bf.fdel[i]) lf.push_back(i);
    for (int i = 0; i < 2 * bf.nf; ++i) if (!bf.fdel[i / 2]) lhf.push_back(i);
    for (int i = 0; i < bf.nc; ++i) if (!bf.cdel[i]) lc.push_back(i);
    entity_iter_protocol("vertices", m.vertices(), m.v_iter(), lv, vs, st);
    entity_iter_protocol("edges", m.edges(), m.e_iter(), le, vs, st);
    entity_iter_protocol("halfedges", m.halfedges(), m.he_iter(), lhe, vs, st);
    entity_iter_protocol("faces", m.faces(), m.f_iter(), lf, vs, st);
    entity_iter_protocol("halffaces", m.halffaces(), m.hf_iter(), lhf, vs, st);
    entity_iter_protocol("cells", m.cells(), m.c_iter(), lc, vs, st);
    if (!vs.empty()) return;
    auto V = [](const std::set<int> &x) { return std::vector<int>(x.begin(), x.end()); };
#define CIRC(name, H, h, iterfn, rangefn, ref, kind) \
    circ_protocol(name, h, [&](int l) { return m.iterfn(H(h), l); }, [&](int l) { return m.rangefn(H(h), l); }, ref, kind, vs, st); \
    if (!vs.empty()) return;
    for (int v : lv) {
        if (vbu) {
            CIRC("voh", VertexHandle, v, voh_iter, outgoing_halfedges, bf.out[v], MULTI);
            CIRC("vih", VertexHandle, v, vih_iter, incoming_halfedges, bf.vih(v), MULTI);
            CIRC("vv", VertexHandle, v, vv_iter, vertex_vertices, bf.vv(v), MULTI);
            CIRC("ve", VertexHandle, v, ve_iter, vertex_edges, bf.ve(v), MULTI);
        }
        if (vbu && ebu) { CIRC("vhf", VertexHandle, v, vhf_iter, vertex_halffaces, V(bf.vhf(v)), SET); }
        if (vbu && ebu && fbu) {
            CIRC("vf", VertexHandle, v, vf_iter, vertex_faces, V(bf.vf(v)), SET);
            CIRC("vc", VertexHandle, v, vc_iter, vertex_cells, V(bf.vc(v)), SET);
        }
    }
    for (int h : lhe) {
        if (ebu) {
            CIRC("hehf", HalfEdgeHandle, h, hehf_iter, halfedge_halffaces, bf.hfs_of_he[h], MULTI);
            CIRC("hef", HalfEdgeHandle, h, hef_iter, halfedge_faces, V(bf.hef(h)), SET);
            if (fbu) { CIRC("hec", HalfEdgeHandle, h, hec_iter, halfedge_cells, V(bf.hec(h)), SET); }
        }
    }
    for (int e : le) {
        if (ebu) {
            CIRC("ehf", EdgeHandle, e, ehf_iter, edge_halffaces, bf.ehf(e), MULTI);
            CIRC("ef", EdgeHandle, e, ef_iter, edge_faces, V(bf.hef(2 * e)), SET);
            if (fbu) { CIRC("ec", EdgeHandle, e, ec_iter, edge_cells, V(bf.hec(2 * e)), SET); }
        }
    }
    for (int h : lhf) {
        CIRC("hfhe", HalfFaceHandle, h, hfhe_iter, halfface_halfedges, bf.hfhe[h], SEQ);
        CIRC("hfe", HalfFaceHandle, h, hfe_iter, halfface_edges, bf.hfe(h), SEQ);
        CIRC("hfv", HalfFaceHandle, h, hfv_iter, halfface_vertices, bf.hfv(h), SEQ);
        if (ebu && fbu && bf.hf_boundary(h)) { CIRC("bhfhf", HalfFaceHandle, h, bhfhf_iter, boundary_halfface_halffaces, bf.bhfhf(h), MULTI); }
    }
    for (int f : lf) {
        CIRC("fhe", FaceHandle, f, fhe_iter, face_halfedges, bf.hfhe[2 * f], SEQ);
        CIRC("fe", FaceHandle, f, fe_iter, face_edges, bf.hfe(2 * f), SEQ);
        CIRC("fv", FaceHandle, f, fv_iter, face_vertices, bf.hfv(2 * f), SEQ);
    }
    for (int c : lc) {
        std::vector<int> cf;
        for (int hf : bf.chf[c]) cf.push_back(hf / 2);
        CIRC("chf", CellHandle, c, chf_iter, cell_halffaces, bf.chf[c], SEQ);
        CIRC("cf", CellHandle, c, cf_iter, cell_faces, cf, SEQ);
        CIRC("che", CellHandle, c, che_iter, cell_halfedges, bf.che(c), SEQ);
        CIRC("ce", CellHandle, c, ce_iter, cell_edges, V(bf.ce(c)), SET);
        CIRC("cv", CellHandle, c, cv_iter, cell_vertices, V(bf.cv(c)), SET);
        if (fbu) { CIRC("cc", CellHandle, c, cc_iter, cell_cells, V(bf.cc(c)), SET); }
    }
#undef CIRC
    special_circulators_c05(s, bf, vs, st);
}

// ---------------------------------------------------------------------------------------------- C08
inline bool cyc_equal(const std::vector<int> &a, const std::vector<int> &b) {
    if (a.size() != b.size()) return false;
    if (a.empty()) return true;
    for (size_t r = 0; r < a.size(); ++r) {
        bool ok = true;
        for (size_t i = 0; i < a.size() && ok; ++i) ok = a[(i + r) % a.size()] == b[i];
        if (ok) return true;
    }
    return false;
}

inline void check_c08(const Sys &s, const Bf &bf, Viols &vs, Stats &st) {
    const Mesh &m = s.m;
    if (bf.malformed) return;
    for (int e = 0; e < bf.ne; ++e) {
        if (bf.edel[e]) continue;
        st.hit("c08-edges");
        EdgeHandle eh(e);
        HalfEdgeHandle h0 = m.halfedge_handle(eh, 0), h1 = m.halfedge_handle(eh, 1);
        if (h0 != eh.halfedge_handle(0) || h1 != eh.halfedge_handle(1) || h0.idx() != 2 * e || h1.idx() != 2 * e + 1) VIOL(vs, "c08:halfedge_handle", "edge " << e);
        if (m.edge_handle(h0) != eh || m.edge_handle(h1) != eh || h0.edge_handle() != eh || h1.edge_handle() != eh) VIOL(vs, "c08:edge_handle", "edge " << e);
        if (m.opposite_halfedge_handle(h0) != h1 || m.opposite_halfedge_handle(h1) != h0 || h0.opposite_handle() != h1 || h1.opposite_handle() != h0) VIOL(vs, "c08:opposite_halfedge_handle", "edge " << e);
        if (h0.subidx() != 0 || h1.subidx() != 1) VIOL(vs, "c08:subidx", "edge " << e);
        auto ed = m.edge(eh);
        auto a = m.halfedge(h0), b = m.halfedge(h1), oa = m.opposite_halfedge(h0), ob = m.opposite_halfedge(h1);
        if (a.from_vertex() != ed.from_vertex() || a.to_vertex() != ed.to_vertex()) VIOL(vs, "c08:halfedge0", "edge " << e);
        if (b.from_vertex() != ed.to_vertex() || b.to_vertex() != ed.from_vertex()) VIOL(vs, "c08:halfedge1-mirror", "halfedge " << 2 * e + 1 << " is " << b.from_vertex().idx() << ">" << b.to_vertex().idx() << " for edge " << ed.from_vertex().idx() << ">" << ed.to_vertex().idx());
        if (oa.from_vertex() != b.from_vertex() || oa.to_vertex() != b.to_vertex() || ob.from_vertex() != a.from_vertex() || ob.to_vertex() != a.to_vertex()) VIOL(vs, "c08:opposite_halfedge", "edge " << e);
        if (m.from_vertex_handle(h1) != m.to_vertex_handle(h0) || m.to_vertex_handle(h1) != m.from_vertex_handle(h0)) VIOL(vs, "c08:from-to-swap", "edge " << e);
        auto ov = m.opposite_halfedge(ed);
        if (ov.from_vertex() != ed.to_vertex() || ov.to_vertex() != ed.from_vertex()) VIOL(vs, "c08:opposite_halfedge(Edge)", "edge " << e);
        auto hv = m.halfedge_vertices(h1); auto evv = m.edge_vertices(eh); auto ehh = m.edge_halfedges(eh);
        if (hv[0] != b.from_vertex() || hv[1] != b.to_vertex() || evv[0] != ed.from_vertex() || evv[1] != ed.to_vertex() || ehh[0] != h0 || ehh[1] != h1) VIOL(vs, "c08:convenience-arrays", "edge " << e);
    }
    for (int f = 0; f < bf.nf; ++f) {
        if (bf.fdel[f]) continue;
        st.hit("c08-faces");
        FaceHandle fh(f);
        HalfFaceHandle h0 = m.halfface_handle(fh, 0), h1 = m.halfface_handle(fh, 1);
        if (h0.idx() != 2 * f || h1.idx() != 2 * f + 1 || fh.halfface_handle(0) != h0 || fh.halfface_handle(1) != h1) VIOL(vs, "c08:halfface_handle", "face " << f);
        if (m.face_handle(h0) != fh || m.face_handle(h1) != fh || h0.face_handle() != fh || h1.face_handle() != fh) VIOL(vs, "c08:face_handle", "face " << f);
        if (m.opposite_halfface_handle(h0) != h1 || m.opposite_halfface_handle(h1) != h0 || h0.opposite_handle() != h1 || h1.opposite_handle() != h0) VIOL(vs, "c08:opposite_halfface_handle", "face " << f);
        auto fhh = m.face_halffaces(fh);
        if (fhh[0] != h0 || fhh[1] != h1) VIOL(vs, "c08:face_halffaces", "face " << f);
        std::vector<int> d0 = idxs(m.face(fh).halfedges()), s0 = idxs(m.halfface(h0).halfedges()), s1 = idxs(m.halfface(h1).halfedges());
        std::vector<int> mir;
        for (auto it = d0.rbegin(); it != d0.rend(); ++it) mir.push_back(*it ^ 1);
        if (s0 != d0) VIOL(vs, "c08:halfface0", "face " << f);
        if (s1 != mir) VIOL(vs, "c08:halfface1-mirror", "halfface " << 2 * f + 1 << " lists " << vstr(s1) << ", the reversed opposites of side 0 are " << vstr(mir));
        if (idxs(m.opposite_halfface(h0).halfedges()) != s1 || idxs(m.opposite_halfface(h1).halfedges()) != s0) VIOL(vs, "c08:opposite_halfface", "face " << f);
        if (idxs(m.opposite_halfface(m.opposite_halfface(m.face(fh))).halfedges()) != d0) VIOL(vs, "c08:opposite-twice", "face " << f);
        // closed loop
        if (!closed_loop(bf, d0)) VIOL(vs, "c08:closed-loop", "face " << f << " " << vstr(d0) << " is not a closed halfedge loop");
        // circulators of the two sides: same cycle, opposite directions
        bool ra = false;
        auto he0 = collect(m.hfhe_iter(h0), &ra), he1 = collect(m.hfhe_iter(h1), &ra);
        auto v0 = collect(m.hfv_iter(h0), &ra), v1 = collect(m.hfv_iter(h1), &ra);
        auto e0 = collect(m.hfe_iter(h0), &ra), e1 = collect(m.hfe_iter(h1), &ra);
        std::vector<int> rhe, rv(v0.rbegin(), v0.rend()), re(e0.rbegin(), e0.rend());
        for (auto it = he0.rbegin(); it != he0.rend(); ++it) rhe.push_back(*it ^ 1);
        if (he0 != d0 || he1 != rhe) VIOL(vs, "c08:hfhe-sides", "face " << f << ": side0 " << vstr(he0) << " side1 " << vstr(he1));
        if (!cyc_equal(v1, rv)) VIOL(vs, "c08:hfv-sides", "face " << f << ": side0 vertices " << vstr(v0) << " side1 " << vstr(v1));
        if (e1 != re) VIOL(vs, "c08:hfe-sides", "face " << f << ": side0 edges " << vstr(e0) << " side1 " << vstr(e1));
        if (v0 != bf.hfv(2 * f) || v1 != bf.hfv(2 * f + 1)) VIOL(vs, "c08:hfv-definition", "face " << f);
        if (collect(m.fhe_iter(fh), &ra) != d0 || collect(m.fv_iter(fh), &ra) != v0 || collect(m.fe_iter(fh), &ra) != e0) VIOL(vs, "c08:face-circulators", "face " << f);
        if (idxs(m.get_halfface_vertices(h0)) != v0 || idxs(m.get_halfface_vertices(h1)) != v1) VIOL(vs, "c08:get_halfface_vertices", "face " << f);
        // next / prev along the stored order, inverse of each other
        for (int side = 0; side < 2; ++side) {
            const auto &cyc = side ? s1 : s0;
            HalfFaceHandle hh = side ? h1 : h0;
            for (size_t i = 0; i < cyc.size(); ++i) {
                if (std::count(cyc.begin(), cyc.end(), cyc[i]) != 1) continue;
                int nx = m.next_halfedge_in_halfface(HalfEdgeHandle(cyc[i]), hh).idx(), pv = m.prev_halfedge_in_halfface(HalfEdgeHandle(cyc[i]), hh).idx();
                if (nx != cyc[(i + 1) % cyc.size()]) VIOL(vs, "c08:next_halfedge_in_halfface", "halfface " << hh.idx() << " he " << cyc[i] << ": next " << nx);
                if (pv != cyc[(i + cyc.size() - 1) % cyc.size()]) VIOL(vs, "c08:prev_halfedge_in_halfface", "halfface " << hh.idx() << " he " << cyc[i] << ": prev " << pv);
                if (nx >= 0 && m.prev_halfedge_in_halfface(HalfEdgeHandle(nx), hh).idx() != cyc[i] && std::count(cyc.begin(), cyc.end(), nx) == 1) VIOL(vs, "c08:next-prev-inverse", "halfface " << hh.idx() << " he " << cyc[i]);
                // a halfedge of the other side is not part of this side (unless the face uses both halfedges of an edge)
                if (!std::count(cyc.begin(), cyc.end(), cyc[i] ^ 1) && m.next_halfedge_in_halfface(HalfEdgeHandle(cyc[i] ^ 1), hh).is_valid()) VIOL(vs, "c08:next-foreign", "halfface " << hh.idx());
            }
        }
        if (ra) VIOL(vs, "c08:runaway", "face " << f);
    }
}

// ---------------------------------------------------------------------------------------------- C09
inline bool cell_closed(const Bf &bf, int c) { return closed_surface(bf, bf.chf[c]); }

// brute force: the unique other halfface of hf's cell that contains the opposite of he (he in hf). -1 if none, -2 if several.
inline int adj_in_cell_bf(const Bf &bf, int c, int hf, int he) {
    int r = -1;
    for (int g : bf.chf[c]) {
        if (g == hf) continue;
        if (std::count(bf.hfhe[g].begin(), bf.hfhe[g].end(), he ^ 1)) { if (r >= 0) return -2; r = g; }
    }
    return r;
}

inline bool is_single_fan(const Bf &bf, int e) {
    const auto &H0 = bf.hfs_of_he[2 * e];
    if (H0.empty()) return false;
    std::set<int> faces;
    for (int hf : H0) if (!faces.insert(hf / 2).second) return false;  // the edge occurs once per incident face
    if (bf.hfs_of_he[2 * e + 1].size() != H0.size()) return false;
    // cell links between faces
    std::map<int, std::vector<int>> adj;
    for (int f : faces) adj[f];
    std::set<int> cells;
    for (int f : faces) for (int s = 0; s < 2; ++s) { if (bf.cells_of_hf[2 * f + s].size() > 1) return false; for (int c : bf.cells_of_hf[2 * f + s]) cells.insert(c); }
    for (int c : cells) {
        std::vector<int> with0, with1;
        for (int g : bf.chf[c]) {
            int n0 = (int)std::count(bf.hfhe[g].begin(), bf.hfhe[g].end(), 2 * e), n1 = (int)std::count(bf.hfhe[g].begin(), bf.hfhe[g].end(), 2 * e + 1);
            for (int i = 0; i < n0; ++i) with0.push_back(g);
            for (int i = 0; i < n1; ++i) with1.push_back(g);
        }
        if (with0.size() != 1 || with1.size() != 1) return false;
        if (with0[0] / 2 == with1[0] / 2) return false;  // both sides of one face in the same cell at this edge
        adj[with0[0] / 2].push_back(with1[0] / 2);
        adj[with1[0] / 2].push_back(with0[0] / 2);
    }
    int ends = 0;
    for (auto &kv : adj) { if (kv.second.size() > 2) return false; if (kv.second.size() < 2) ends += 2 - (int)kv.second.size(); }
    if (ends != 0 && ends != 2) return false;
    // connected
    std::set<int> seen;
    std::vector<int> stack{*faces.begin()};
    while (!stack.empty()) { int f = stack.back(); stack.pop_back(); if (!seen.insert(f).second) continue; for (int g : adj[f]) stack.push_back(g); }
    return seen.size() == faces.size();
}

inline void check_c09(const Sys &s, const Bf &bf, Viols &vs, Stats &st) {
    const Mesh &m = s.m;
    if (bf.malformed || bf.hf_in_two_cells) return;
    if (!m.has_edge_bottom_up_incidences() || !m.has_face_bottom_up_incidences()) return;
    bool ra = false;
    if (!s.tainted) {
        for (int e = 0; e < bf.ne; ++e) {
            if (bf.edel[e] || !is_single_fan(bf, e)) continue;
            st.hit("c09-fan-edges");
            auto L = collect(m.hehf_iter(HalfEdgeHandle(2 * e)), &ra), L1 = collect(m.hehf_iter(HalfEdgeHandle(2 * e + 1)), &ra);
            size_t n = L.size();
            if (sorted(L) != sorted(bf.hfs_of_he[2 * e])) { VIOL(vs, "c09:membership", "edge " << e); continue; }
            if (st.outcomes["c09-fan-valence"].size() < 64) st.outcomes["c09-fan-valence"].insert(std::to_string(n) + (bf.e_boundary(e) ? "b" : "i"));
            for (size_t i = 0; i < n; ++i) {
                int c = bf.cell_of(L[i]);
                if (c < 0) { if (i + 1 != n) VIOL(vs, "c09:boundary-not-last", "edge " << e << ": halfedge_halffaces = " << vstr(L) << ", boundary halfface " << L[i] << " at position " << i); continue; }
                int a = adj_in_cell_bf(bf, c, L[i], 2 * e);
                if (a < 0) { VIOL(vs, "harness:fan-classifier", "edge " << e); continue; }
                if (L[(i + 1) % n] != (a ^ 1)) VIOL(vs, "c09:rotational-order", "edge " << e << ": halfedge_halffaces = " << vstr(L) << "; after " << L[i] << " (cell " << c << ") must come " << (a ^ 1));
            }
            std::vector<int> mir;
            for (auto it = L.rbegin(); it != L.rend(); ++it) mir.push_back(*it ^ 1);
            if (L1 != mir) VIOL(vs, "c09:mirror", "edge " << e << ": halffaces of halfedge 0 " << vstr(L) << ", of halfedge 1 " << vstr(L1) << " (expected " << vstr(mir) << ")");
            // halfedge_cells / edge_cells follow the same rotation (cells of consecutive non-boundary halffaces)
            std::vector<int> ec;
            for (int hf : L) { int c = bf.cell_of(hf); if (c >= 0 && !std::count(ec.begin(), ec.end(), c)) ec.push_back(c); }
            if (collect(m.hec_iter(HalfEdgeHandle(2 * e)), &ra) != ec) VIOL(vs, "c09:halfedge_cells-order", "edge " << e);
            if (collect(m.ec_iter(EdgeHandle(e)), &ra) != ec) VIOL(vs, "c09:edge_cells-order", "edge " << e);
        }
    }
    for (int c = 0; c < bf.nc; ++c) {
        if (bf.cdel[c] || !cell_closed(bf, c)) continue;
        st.hit("c09-closed-cells");
        for (int hf : bf.chf[c]) {
            for (int he : bf.hfhe[hf]) {
                if (std::count(bf.hfhe[hf].begin(), bf.hfhe[hf].end(), he ^ 1)) continue;  // face uses both halfedges of the edge: ambiguous
                int exp = adj_in_cell_bf(bf, c, hf, he);
                int got = m.adjacent_halfface_in_cell(HalfFaceHandle(hf), HalfEdgeHandle(he)).idx();
                std::string self = (exp >= 0 && exp == (hf ^ 1)) ? ":self-adjacent" : "";
                if (got != exp) { VIOL(vs, "c09:adjacent_halfface_in_cell" + self, "cell " << c << " halfface " << hf << " halfedge " << he << ": got " << got << " expected " << exp); continue; }
                int got2 = m.adjacent_halfface_in_cell(HalfFaceHandle(hf), HalfEdgeHandle(he ^ 1)).idx();
                if (got2 != exp) VIOL(vs, "c09:adjacent-other-orientation" + self, "cell " << c << " halfface " << hf << " halfedge " << (he ^ 1) << ": got " << got2 << " expected " << exp);
                if (exp >= 0) {
                    int back = m.adjacent_halfface_in_cell(HalfFaceHandle(exp), HalfEdgeHandle(he ^ 1)).idx();
                    if (back != hf) VIOL(vs, "c09:adjacent-involution" + self, "cell " << c << ": adjacent(adjacent(" << hf << "," << he << ")) = " << back);
                }
            }
        }
    }
    special_c09(s, bf, vs, st);
    if (ra) VIOL(vs, "c09:runaway", "");
}

// ---------------------------------------------------------------------------------------------- C10
inline bool has_consecutive(const std::vector<int> &cyc, const std::vector<int> &pat) {
    size_t n = cyc.size();
    if (pat.size() > n) return false;
    for (size_t r = 0; r < n; ++r) {
        bool ok = true;
        for (size_t i = 0; i < pat.size() && ok; ++i) ok = cyc[(r + i) % n] == pat[i];
        if (ok) return true;
    }
    return false;
}

inline void check_c10(const Sys &s, const Bf &bf, Viols &vs, Stats &st) {
    const Mesh &m = s.m;
    if (bf.malformed || bf.hf_in_two_cells || !m.has_full_bottom_up_incidences()) return;
    std::vector<int> lv, lhe, lhf;
    for (int i = 0; i < bf.nv; ++i) if (!bf.vdel[i]) lv.push_back(i);
    for (int i = 0; i < 2 * bf.ne; ++i) if (!bf.edel[i / 2]) lhe.push_back(i);
    for (int i = 0; i < 2 * bf.nf; ++i) if (!bf.fdel[i / 2]) lhf.push_back(i);
    // parallel edges make "the" halfedge between two vertices ambiguous; the property still demands completeness
    auto parallel = [&](int a, int b) { int n = 0; for (int he : bf.out[a]) if (bf.to(he) == b) ++n; return n > 1; };
    for (int a : lv) for (int b : lv) {
        st.hit("c10-find_halfedge");
        int got = m.find_halfedge(VertexHandle(a), VertexHandle(b)).idx();
        bool ex = false;
        for (int he : bf.out[a]) if (bf.to(he) == b) ex = true;
        if (got >= 0 && (got >= 2 * bf.ne || bf.edel[got / 2] || bf.from(got) != a || bf.to(got) != b)) VIOL(vs, "c10:sound:find_halfedge", "(" << a << "," << b << ") -> " << got);
        if (got < 0 && ex) VIOL(vs, "c10:complete:find_halfedge", "(" << a << "," << b << ") -> invalid although such a halfedge exists");
    }
    std::vector<std::vector<int>> hfv(2 * bf.nf);
    for (int hf : lhf) hfv[hf] = bf.hfv(hf);
    size_t maxval = 0;
    for (int hf : lhf) maxval = std::max(maxval, hfv[hf].size());
    // find_halfface(vertices) / find_halfface_extensive over all ordered triples (and 4-tuples where quads exist)
    std::vector<int> cur;
    std::function<void(size_t)> rec = [&](size_t len) {
        if (cur.size() == len) {
            std::vector<VertexHandle> vh;
            for (int x : cur) vh.push_back(VertexHandle(x));
            std::vector<int> first3(cur.begin(), cur.begin() + 3);
            bool ex3 = false, exall = false;
            for (int hf : lhf) { if (has_consecutive(hfv[hf], first3)) ex3 = true; if (hfv[hf].size() == cur.size() && has_consecutive(hfv[hf], cur)) exall = true; }
            bool par = parallel(cur[0], cur[1]) || parallel(cur[1], cur[2]);
            st.hit("c10-find_halfface");
            int g = m.find_halfface(vh).idx();
            if (g >= 0 && (g >= 2 * bf.nf || bf.fdel[g / 2] || !has_consecutive(hfv[g], first3))) VIOL(vs, "c10:sound:find_halfface(vertices)", vstr(cur) << " -> " << g);
            if (g < 0 && ex3) VIOL(vs, std::string("c10:complete:find_halfface(vertices)") + (par ? ":parallel-edges" : ""), vstr(cur) << " -> invalid although a halfface with these consecutive vertices exists");
            int x = m.find_halfface_extensive(vh).idx();
            if (x >= 0 && (x >= 2 * bf.nf || bf.fdel[x / 2] || hfv[x].size() != cur.size() || !has_consecutive(hfv[x], cur))) VIOL(vs, "c10:sound:find_halfface_extensive", vstr(cur) << " -> " << x);
            if (x < 0 && exall) VIOL(vs, std::string("c10:complete:find_halfface_extensive") + (parallel(cur[0], cur[1]) ? ":parallel-edges" : ""), vstr(cur) << " -> invalid although such a halfface exists");
            return;
        }
        for (int v : lv) { if (std::count(cur.begin(), cur.end(), v)) continue; cur.push_back(v); rec(len); cur.pop_back(); }
    };
    if (lv.size() >= 3) rec(3);
    if (maxval >= 4 && lv.size() >= 4 && lv.size() <= 9) rec(4);
    // find_halfface(halfedges): all ordered pairs of live halfedges
    for (int a : lhe) for (int b : lhe) {
        st.hit("c10-find_halfface(he)");
        int g = m.find_halfface(std::vector<HalfEdgeHandle>{HalfEdgeHandle(a), HalfEdgeHandle(b)}).idx();
        bool ex = false;
        for (int hf : bf.hfs_of_he[a]) if (std::count(bf.hfhe[hf].begin(), bf.hfhe[hf].end(), b)) ex = true;
        if (g >= 0 && (g >= 2 * bf.nf || bf.fdel[g / 2] || !std::count(bf.hfhe[g].begin(), bf.hfhe[g].end(), a) || !std::count(bf.hfhe[g].begin(), bf.hfhe[g].end(), b))) VIOL(vs, "c10:sound:find_halfface(halfedges)", "(" << a << "," << b << ") -> " << g);
        if (g < 0 && ex) VIOL(vs, "c10:complete:find_halfface(halfedges)", "(" << a << "," << b << ") -> invalid");
    }
    // cell-restricted lookups over closed cells
    for (int c = 0; c < bf.nc; ++c) {
        if (bf.cdel[c]) continue;
        size_t nvc = m.n_vertices_in_cell(CellHandle(c));
        if (nvc != bf.cv(c).size()) VIOL(vs, "c10:n_vertices_in_cell", "cell " << c << ": " << nvc << " expected " << bf.cv(c).size());
        if (!cell_closed(bf, c)) continue;
        auto che = bf.che(c);
        for (int a : lv) for (int b : lv) {
            st.hit("c10-find_halfedge_in_cell");
            int g = m.find_halfedge_in_cell(VertexHandle(a), VertexHandle(b), CellHandle(c)).idx();
            bool ex = false;
            for (int he : che) if ((bf.from(he) == a && bf.to(he) == b) || (bf.from(he) == b && bf.to(he) == a)) ex = true;
            if (g >= 0 && (g >= 2 * bf.ne || bf.edel[g / 2] || bf.from(g) != a || bf.to(g) != b || (!std::count(che.begin(), che.end(), g) && !std::count(che.begin(), che.end(), g ^ 1)))) VIOL(vs, "c10:sound:find_halfedge_in_cell", "(" << a << "," << b << "," << c << ") -> " << g);
            if (g < 0 && ex) VIOL(vs, "c10:complete:find_halfedge_in_cell", "(" << a << "," << b << "," << c << ") -> invalid");
        }
        std::vector<int> t;
        std::function<void()> rec3 = [&]() {
            if (t.size() == 3) {
                st.hit("c10-find_halfface_in_cell");
                std::vector<VertexHandle> vh{VertexHandle(t[0]), VertexHandle(t[1]), VertexHandle(t[2])};
                int g = m.find_halfface_in_cell(vh, CellHandle(c)).idx();
                bool ex = false;
                for (int hf : bf.chf[c]) if (has_consecutive(hfv[hf], t)) ex = true;
                if (g >= 0 && (!std::count(bf.chf[c].begin(), bf.chf[c].end(), g) || !has_consecutive(hfv[g], t))) VIOL(vs, "c10:sound:find_halfface_in_cell", vstr(t) << " in cell " << c << " -> " << g);
                if (g < 0 && ex) VIOL(vs, "c10:complete:find_halfface_in_cell", vstr(t) << " in cell " << c << " -> invalid");
                return;
            }
            for (int v : lv) { if (std::count(t.begin(), t.end(), v)) continue; t.push_back(v); rec3(); t.pop_back(); }
        };
        if (lv.size() >= 3 && lv.size() <= 12) rec3();
    }
    // get_halfface_vertices (three forms), is_incident
    for (int hf : lhf) {
        const auto &cyc = hfv[hf];
        size_t n = cyc.size();
        if (idxs(m.get_halfface_vertices(HalfFaceHandle(hf))) != cyc) VIOL(vs, "c10:get_halfface_vertices", "halfface " << hf);
        for (size_t i = 0; i < n; ++i) {
            if (std::count(cyc.begin(), cyc.end(), cyc[i]) != 1) continue;
            std::vector<int> rot;
            for (size_t k = 0; k < n; ++k) rot.push_back(cyc[(i + k) % n]);
            st.hit("c10-get_halfface_vertices");
            if (idxs(m.get_halfface_vertices(HalfFaceHandle(hf), VertexHandle(cyc[i]))) != rot) VIOL(vs, "c10:get_halfface_vertices(vh)", "halfface " << hf << " from vertex " << cyc[i]);
            if (idxs(m.get_halfface_vertices(HalfFaceHandle(hf), HalfEdgeHandle(bf.hfhe[hf][i]))) != rot) VIOL(vs, "c10:get_halfface_vertices(heh)", "halfface " << hf << " from halfedge " << bf.hfhe[hf][i]);
        }
    }
    for (int f = 0; f < bf.nf; ++f) {
        if (bf.fdel[f]) continue;
        for (int e = 0; e < bf.ne; ++e) {
            if (bf.edel[e]) continue;
            auto es = bf.hfe(2 * f);
            bool exp = std::count(es.begin(), es.end(), e) > 0;
            if (m.is_incident(FaceHandle(f), EdgeHandle(e)) != exp) VIOL(vs, "c10:is_incident", "(" << f << "," << e << ")");
        }
    }
}

}  // namespace mc
