// C01: every upward query equals the brute-force scan (state invariant, evaluated on every live entity).
#pragma once
#include "brute.hh"

namespace mc {

#define CMP_MS(rule, got, exp, ctx)                                                                   \
    do {                                                                                              \
        auto _g = sorted(got); auto _e = sorted(exp);                                                 \
        if (_g != _e) VIOL(vs, rule, ctx << ": got " << vstr(_g) << " expected " << vstr(_e));        \
    } while (0)

inline void check_c01(const Sys &s, const Bf &bf, Viols &vs, std::map<std::string, std::set<std::string>> *outcomes = nullptr) {
    const Mesh &m = s.m;
    if (bf.malformed) { VIOL(vs, "malformed-state", "a live entity refers to a deleted or out-of-range sub-entity"); return; }
    if (bf.hf_in_two_cells) return;  // excluded by the property
    const bool vbu = m.has_vertex_bottom_up_incidences(), ebu = m.has_edge_bottom_up_incidences(), fbu = m.has_face_bottom_up_incidences();
    const bool full = vbu && ebu && fbu;
    bool runaway = false;
    auto note = [&](const char *q, const std::vector<int> &v) { if (outcomes) (*outcomes)[q].insert(vstr(v)); };

    for (int v = 0; v < bf.nv; ++v) {
        if (bf.vdel[v]) continue;
        VertexHandle vh(v);
        if (vbu) {
            auto o = collect(m.voh_iter(vh), &runaway);
            note("voh", o);
            CMP_MS("c01:outgoing_halfedges", o, bf.out[v], "vertex " << v);
            CMP_MS("c01:outgoing_halfedges(range)", collect_range(m.outgoing_halfedges(vh), &runaway), bf.out[v], "vertex " << v);
            CMP_MS("c01:incoming_halfedges", collect(m.vih_iter(vh), &runaway), bf.vih(v), "vertex " << v);
            CMP_MS("c01:vertex_vertices", collect(m.vv_iter(vh), &runaway), bf.vv(v), "vertex " << v);
            CMP_MS("c01:vertex_edges", collect(m.ve_iter(vh), &runaway), bf.ve(v), "vertex " << v);
            if (m.valence(vh) != bf.out[v].size()) VIOL(vs, "c01:valence(v)", "vertex " << v << ": " << m.valence(vh) << " != " << bf.out[v].size());
        }
        if (vbu && ebu) CMP_MS("c01:vertex_halffaces", collect(m.vhf_iter(vh), &runaway), bf.vhf(v), "vertex " << v);
        if (full) {
            CMP_MS("c01:vertex_faces", collect(m.vf_iter(vh), &runaway), bf.vf(v), "vertex " << v);
            auto c = collect(m.vc_iter(vh), &runaway);
            note("vc", c);
            CMP_MS("c01:vertex_cells", c, bf.vc(v), "vertex " << v);
            if (m.is_boundary(vh) != bf.v_boundary(v)) VIOL(vs, "c01:is_boundary(v)", "vertex " << v << ": " << m.is_boundary(vh));
        }
    }
    for (int he = 0; he < 2 * bf.ne; ++he) {
        if (bf.edel[he / 2]) continue;
        HalfEdgeHandle h(he);
        if (ebu) {
            auto l = collect(m.hehf_iter(h), &runaway);
            note("hehf", l);
            CMP_MS("c01:halfedge_halffaces", l, bf.hfs_of_he[he], "halfedge " << he);
            CMP_MS("c01:halfedge_faces", collect(m.hef_iter(h), &runaway), bf.hef(he), "halfedge " << he);
            if (fbu) {
                CMP_MS("c01:halfedge_cells", collect(m.hec_iter(h), &runaway), bf.hec(he), "halfedge " << he);
                if (m.is_boundary(h) != bf.he_boundary(he)) VIOL(vs, "c01:is_boundary(he)", "halfedge " << he << ": " << m.is_boundary(h));
            }
        }
    }
    for (int e = 0; e < bf.ne; ++e) {
        if (bf.edel[e]) continue;
        EdgeHandle h(e);
        if (ebu) {
            CMP_MS("c01:edge_halffaces", collect(m.ehf_iter(h), &runaway), bf.ehf(e), "edge " << e);
            CMP_MS("c01:edge_faces", collect(m.ef_iter(h), &runaway), bf.hef(2 * e), "edge " << e);
            if (m.valence(h) != bf.hfs_of_he[2 * e].size()) VIOL(vs, "c01:valence(e)", "edge " << e << ": " << m.valence(h) << " != " << bf.hfs_of_he[2 * e].size());
            if (fbu) {
                CMP_MS("c01:edge_cells", collect(m.ec_iter(h), &runaway), bf.hec(2 * e), "edge " << e);
                if (m.is_boundary(h) != bf.e_boundary(e)) VIOL(vs, "c01:is_boundary(e)", "edge " << e << ": " << m.is_boundary(h));
            }
        }
    }
    if (fbu) {
        for (int hf = 0; hf < 2 * bf.nf; ++hf) {
            if (bf.fdel[hf / 2]) continue;
            HalfFaceHandle h(hf);
            int c = m.incident_cell(h).idx();
            if (outcomes) (*outcomes)["incident_cell"].insert(std::to_string(c));
            if (c != bf.cell_of(hf)) VIOL(vs, "c01:incident_cell", "halfface " << hf << ": " << c << " expected " << bf.cell_of(hf));
            if (m.is_boundary(h) != bf.hf_boundary(hf)) VIOL(vs, "c01:is_boundary(hf)", "halfface " << hf);
            if (ebu && bf.hf_boundary(hf)) CMP_MS("c01:boundary_halfface_halffaces", collect(m.bhfhf_iter(h), &runaway), bf.bhfhf(hf), "halfface " << hf);
        }
        for (int f = 0; f < bf.nf; ++f) {
            if (bf.fdel[f]) continue;
            FaceHandle h(f);
            auto fc = m.face_cells(h);
            if (fc[0].idx() != bf.cell_of(2 * f) || fc[1].idx() != bf.cell_of(2 * f + 1)) VIOL(vs, "c01:face_cells", "face " << f);
            if (m.is_boundary(h) != bf.f_boundary(f)) VIOL(vs, "c01:is_boundary(f)", "face " << f);
        }
        for (int c = 0; c < bf.nc; ++c) {
            if (bf.cdel[c]) continue;
            CellHandle h(c);
            CMP_MS("c01:cell_cells", collect(m.cc_iter(h), &runaway), bf.cc(c), "cell " << c);
            if (m.is_boundary(h) != bf.c_boundary(c)) VIOL(vs, "c01:is_boundary(c)", "cell " << c);
        }
    }
    // boundary iterators: exactly the live entities satisfying the boundary predicate, ascending
    if (full) {
        std::vector<int> e;
        for (int v = 0; v < bf.nv; ++v) if (!bf.vdel[v] && bf.v_boundary(v)) e.push_back(v);
        auto g = collect(m.bv_iter(), &runaway);
        if (g != e) VIOL(vs, "c01:bv_iter", "got " << vstr(g) << " expected " << vstr(e));
    }
    if (ebu && fbu) {
        std::vector<int> e;
        for (int h = 0; h < 2 * bf.ne; ++h) if (!bf.edel[h / 2] && bf.he_boundary(h)) e.push_back(h);
        auto g = collect(m.bhe_iter(), &runaway);
        if (g != e) VIOL(vs, "c01:bhe_iter", "got " << vstr(g) << " expected " << vstr(e));
        e.clear();
        for (int h = 0; h < bf.ne; ++h) if (!bf.edel[h] && bf.e_boundary(h)) e.push_back(h);
        g = collect(m.be_iter(), &runaway);
        if (g != e) VIOL(vs, "c01:be_iter", "got " << vstr(g) << " expected " << vstr(e));
    }
    if (fbu) {
        std::vector<int> e;
        for (int h = 0; h < 2 * bf.nf; ++h) if (!bf.fdel[h / 2] && bf.hf_boundary(h)) e.push_back(h);
        auto g = collect(m.bhf_iter(), &runaway);
        if (g != e) VIOL(vs, "c01:bhf_iter", "got " << vstr(g) << " expected " << vstr(e));
        e.clear();
        for (int h = 0; h < bf.nf; ++h) if (!bf.fdel[h] && bf.f_boundary(h)) e.push_back(h);
        g = collect(m.bf_iter(), &runaway);
        if (g != e) VIOL(vs, "c01:bf_iter", "got " << vstr(g) << " expected " << vstr(e));
        e.clear();
        for (int h = 0; h < bf.nc; ++h) if (!bf.cdel[h] && bf.c_boundary(h)) e.push_back(h);
        g = collect(m.bc_iter(), &runaway);
        if (g != e) VIOL(vs, "c01:bc_iter", "got " << vstr(g) << " expected " << vstr(e));
    }
    if (runaway) VIOL(vs, "c01:runaway-iteration", "a circulator did not terminate within " << ITER_CAP << " steps");
}

}  // namespace mc
