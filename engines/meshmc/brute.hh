// Brute-force recomputation of every upward relation from the authoritative top-down arrays,
// read through the public API only (edge(), face(), cell(), is_deleted()).
#pragma once
#include "core.hh"

namespace mc {

struct Bf {
    int nv = 0, ne = 0, nf = 0, nc = 0;
    std::vector<char> vdel, edel, fdel, cdel;
    std::vector<std::array<int, 2>> ev;     // edge -> from,to
    std::vector<std::vector<int>> hfhe;     // halfface -> halfedge cycle (side 1: reversed opposites)
    std::vector<std::vector<int>> chf;      // cell -> halfface list
    std::vector<std::vector<int>> out;      // vertex -> live outgoing halfedges (per occurrence, ascending)
    std::vector<std::vector<int>> hfs_of_he;  // halfedge -> live halffaces whose cycle contains it, once per occurrence
    std::vector<std::vector<int>> cells_of_hf;  // halfface -> live cells listing it
    bool hf_in_two_cells = false;
    bool malformed = false;  // a live entity refers to something out of range / deleted

    int from(int he) const { return ev[he / 2][he & 1]; }
    int to(int he) const { return ev[he / 2][1 - (he & 1)]; }
    int cell_of(int hf) const { return cells_of_hf[hf].empty() ? -1 : cells_of_hf[hf][0]; }
    bool hf_boundary(int hf) const { return cells_of_hf[hf].empty(); }
    bool f_boundary(int f) const { return hf_boundary(2 * f) || hf_boundary(2 * f + 1); }
    bool he_boundary(int he) const { for (int hf : hfs_of_he[he]) if (f_boundary(hf / 2)) return true; return false; }
    bool e_boundary(int e) const { return he_boundary(2 * e); }
    bool v_boundary(int v) const { for (int he : out[v]) if (he_boundary(he)) return true; return false; }
    bool c_boundary(int c) const { for (int hf : chf[c]) if (f_boundary(hf / 2)) return true; return false; }

    explicit Bf(const Mesh &m) {
        nv = (int)m.n_vertices(); ne = (int)m.n_edges(); nf = (int)m.n_faces(); nc = (int)m.n_cells();
        vdel.resize(nv); edel.resize(ne); fdel.resize(nf); cdel.resize(nc);
        for (int i = 0; i < nv; ++i) vdel[i] = m.is_deleted(VertexHandle(i));
        ev.resize(ne);
        for (int i = 0; i < ne; ++i) {
            edel[i] = m.is_deleted(EdgeHandle(i));
            ev[i] = {m.edge(EdgeHandle(i)).from_vertex().idx(), m.edge(EdgeHandle(i)).to_vertex().idx()};
            if (!edel[i]) for (int k = 0; k < 2; ++k) if (ev[i][k] < 0 || ev[i][k] >= nv || vdel[ev[i][k]]) malformed = true;
        }
        hfhe.resize(2 * nf);
        for (int i = 0; i < nf; ++i) {
            fdel[i] = m.is_deleted(FaceHandle(i));
            auto &hes = m.face(FaceHandle(i)).halfedges();
            for (auto h : hes) {
                hfhe[2 * i].push_back(h.idx());
                if (!fdel[i] && (h.idx() < 0 || h.idx() >= 2 * ne || edel[h.idx() / 2])) malformed = true;
            }
            for (auto it = hes.rbegin(); it != hes.rend(); ++it) hfhe[2 * i + 1].push_back(it->idx() ^ 1);
        }
        chf.resize(nc);
        for (int i = 0; i < nc; ++i) {
            cdel[i] = m.is_deleted(CellHandle(i));
            for (auto h : m.cell(CellHandle(i)).halffaces()) {
                chf[i].push_back(h.idx());
                if (!cdel[i] && (h.idx() < 0 || h.idx() >= 2 * nf || fdel[h.idx() / 2])) malformed = true;
            }
        }
        out.assign(nv, {});
        hfs_of_he.assign(2 * ne, {});
        cells_of_hf.assign(2 * nf, {});
        if (malformed) return;
        for (int e = 0; e < ne; ++e) if (!edel[e]) { out[ev[e][0]].push_back(2 * e); out[ev[e][1]].push_back(2 * e + 1); }
        for (auto &o : out) std::sort(o.begin(), o.end());
        for (int hf = 0; hf < 2 * nf; ++hf) if (!fdel[hf / 2]) for (int he : hfhe[hf]) hfs_of_he[he].push_back(hf);
        for (int c = 0; c < nc; ++c) if (!cdel[c]) for (int hf : chf[c]) cells_of_hf[hf].push_back(c);
        for (auto &l : cells_of_hf) if (l.size() > 1) hf_in_two_cells = true;
    }

    // ---- derived relations (reference definitions of DESIGN.md section 10)
    std::vector<int> vv(int v) const { std::vector<int> r; for (int he : out[v]) r.push_back(to(he)); return r; }
    std::vector<int> ve(int v) const { std::vector<int> r; for (int he : out[v]) r.push_back(he / 2); return r; }
    std::vector<int> vih(int v) const { std::vector<int> r; for (int he : out[v]) r.push_back(he ^ 1); return r; }
    std::set<int> vf(int v) const { std::set<int> r; for (int he : out[v]) for (int hf : hfs_of_he[he]) r.insert(hf / 2); return r; }
    std::set<int> vhf(int v) const { std::set<int> r; for (int f : vf(v)) { r.insert(2 * f); r.insert(2 * f + 1); } return r; }
    std::set<int> vc(int v) const {
        std::set<int> r;
        for (int he : out[v]) for (int hf : hfs_of_he[he]) for (int c : cells_of_hf[hf]) r.insert(c);
        return r;
    }
    std::set<int> hef(int he) const { std::set<int> r; for (int hf : hfs_of_he[he]) r.insert(hf / 2); return r; }
    std::set<int> hec(int he) const { std::set<int> r; for (int hf : hfs_of_he[he]) for (int c : cells_of_hf[hf]) r.insert(c); return r; }
    std::vector<int> ehf(int e) const { std::vector<int> r; for (int hf : hfs_of_he[2 * e]) { r.push_back(hf); r.push_back(hf ^ 1); } return r; }
    std::set<int> cc(int c) const { std::set<int> r; for (int hf : chf[c]) for (int d : cells_of_hf[hf ^ 1]) r.insert(d); return r; }
    std::vector<int> che(int c) const { std::vector<int> r; for (int hf : chf[c]) for (int he : hfhe[hf]) r.push_back(he); return r; }
    std::set<int> ce(int c) const { std::set<int> r; for (int he : che(c)) r.insert(he / 2); return r; }
    std::set<int> cv(int c) const { std::set<int> r; for (int he : che(c)) { r.insert(from(he)); r.insert(to(he)); } return r; }
    std::vector<int> hfv(int hf) const { std::vector<int> r; for (int he : hfhe[hf]) r.push_back(from(he)); return r; }
    std::vector<int> hfe(int hf) const { std::vector<int> r; for (int he : hfhe[hf]) r.push_back(he / 2); return r; }
    std::vector<int> bhfhf(int hf) const {
        std::vector<int> r;
        for (int he : hfhe[hf]) for (int g : hfs_of_he[he ^ 1]) if (hf_boundary(g)) r.push_back(g);
        return r;
    }
};

template <class T> std::vector<int> sorted(std::vector<T> v) { std::vector<int> r(v.begin(), v.end()); std::sort(r.begin(), r.end()); return r; }
inline std::vector<int> sorted(const std::set<int> &s) { return std::vector<int>(s.begin(), s.end()); }

// run a circulator through the valid() protocol and collect the handle indices
static const size_t ITER_CAP = 100000;
template <class It> std::vector<int> collect(It it, bool *runaway = nullptr) {
    std::vector<int> r;
    for (; it.valid(); ++it) {
        r.push_back((*it).idx());
        if (r.size() > ITER_CAP) { if (runaway) *runaway = true; break; }
    }
    return r;
}
template <class Pair> std::vector<int> collect_range(Pair p, bool *runaway = nullptr) {
    std::vector<int> r;
    for (auto it = p.first; it != p.second; ++it) {
        r.push_back((*it).idx());
        if (r.size() > ITER_CAP) { if (runaway) *runaway = true; break; }
    }
    return r;
}

}  // namespace mc
