#pragma once
#include "core.hh"
#include "brute.hh"
namespace mc {
struct Stats {
    std::map<std::string, long> counts;
    std::map<std::string, std::set<std::string>> outcomes;
    void hit(const std::string &k, long n = 1) { counts[k] += n; }
};
// kernel-specific extras (tet / hex circulators, hex sheet adjacency): defined in oracle_special.hh
void special_circulators_c05(const Sys &s, const Bf &bf, Viols &vs, Stats &st);
void special_c09(const Sys &s, const Bf &bf, Viols &vs, Stats &st);
}  // namespace mc
