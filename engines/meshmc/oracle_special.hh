// Tet / hex specific oracles (C15, C16) and the specialised circulators of C05 / C09 / C12.
#pragma once
#include "oracles_fwd.hh"
#include "menu.hh"
#if defined(MC_TET)
#include <OpenVolumeMesh/Unstable/Topology/TetTopology.hh>
#include <OpenVolumeMesh/Unstable/Topology/TriangleTopology.hh>
#endif

namespace mc {


inline bool rot_equal(const std::vector<int> &a, const std::vector<int> &b) {
    if (a.size() != b.size()) return false;
    for (size_t r = 0; r < a.size(); ++r) { bool ok = true; for (size_t i = 0; i < a.size() && ok; ++i) ok = a[(i + r) % a.size()] == b[i]; if (ok) return true; }
    return a.empty();
}
// parity of the permutation taking tuple a to tuple b (same 4 distinct elements): true = even
inline bool same_orientation4(const std::vector<int> &a, const std::vector<int> &b) {
    int p[4];
    for (int i = 0; i < 4; ++i) { p[i] = -1; for (int j = 0; j < 4; ++j) if (b[i] == a[j]) p[i] = j; if (p[i] < 0) return false; }
    int inv = 0;
    for (int i = 0; i < 4; ++i) for (int j = i + 1; j < 4; ++j) if (p[i] > p[j]) ++inv;
    return inv % 2 == 0;
}

#if defined(MC_TET)
// a closed tetrahedral cell: 4 triangles, 4 distinct vertices, closed surface
inline bool is_tet(const Bf &bf, int c) {
    if (bf.chf[c].size() != 4) return false;
    for (int hf : bf.chf[c]) if (bf.hfhe[hf].size() != 3) return false;
    // four DIFFERENT triangles on four vertices: both sides of one face ("pillow") are a closed surface but no tetrahedron
    std::set<std::set<int>> tri;
    for (int hf : bf.chf[c]) { auto v = bf.hfv(hf); tri.insert(std::set<int>(v.begin(), v.end())); }
    return tri.size() == 4 && bf.cv(c).size() == 4 && closed_surface(bf, bf.chf[c]);
}
inline int apex_of(const Bf &bf, int c, int hf) { auto cv = bf.cv(c); for (int v : bf.hfv(hf)) cv.erase(v); return cv.size() == 1 ? *cv.begin() : -1; }

#define TT_HEL_LIST(X) X(AB, A, B) X(BC, B, C) X(CA, C, A) X(CD, C, D) X(AD, A, D) X(BD, B, D) X(BA, B, A) X(CB, C, B) X(AC, A, C) X(DC, D, C) X(DA, D, A) X(DB, D, B)
#define TT_HFL_LIST(X)                                                                                                                    \
    X(BDC, B, D, C) X(CBD, C, B, D) X(DCB, D, C, B) X(ACD, A, C, D) X(CDA, C, D, A) X(DAC, D, A, C) X(ADB, A, D, B) X(BAD, B, A, D)          \
    X(DBA, D, B, A) X(ABC, A, B, C) X(BCA, B, C, A) X(CAB, C, A, B) X(BCD, B, C, D) X(CDB, C, D, B) X(DBC, D, B, C) X(ADC, A, D, C)          \
    X(CAD, C, A, D) X(DCA, D, C, A) X(ABD, A, B, D) X(BDA, B, D, A) X(DAB, D, A, B) X(ACB, A, C, B) X(BAC, B, A, C) X(CBA, C, B, A)

inline void check_tettopology(const Mesh &m, const Bf &bf, int c, const TetTopology &tt, const std::string &how, Viols &vs, Stats &st) {
    using TT = TetTopology;
    st.hit("c15-tettopology-labelings");
    int v[4] = {tt.vh<TT::A>().idx(), tt.vh<TT::B>().idx(), tt.vh<TT::C>().idx(), tt.vh<TT::D>().idx()};
    std::set<int> vs4(v, v + 4);
    if (vs4.size() != 4 || vs4 != bf.cv(c)) { VIOL(vs, "c15:tettopology:vertices", how << " cell " << c << ": labelled vertices " << v[0] << "," << v[1] << "," << v[2] << "," << v[3]); return; }
    auto V = [&](TT::VertexLabel l) { return v[(int)l]; };
#define X(L, F, T)                                                                                                                                          \
    { int he = tt.heh<TT::L>().idx();                                                                                                                        \
      if (he < 0 || he >= 2 * bf.ne || bf.edel[he / 2] || bf.from(he) != V(TT::F) || bf.to(he) != V(TT::T)) VIOL(vs, "c15:tettopology:halfedge", how << " cell " << c << ": halfedge label " #L " = " << he << " does not join " #F "->" #T); \
      else { auto gl = tt.get_label(HalfEdgeHandle(he)); if (!gl || *gl != TT::L) VIOL(vs, "c15:tettopology:get_label(heh)", how << " cell " << c << " label " #L); } }
    TT_HEL_LIST(X)
#undef X
#define X(L, P, Q, R)                                                                                                                                        \
    { int hf = tt.hfh<TT::L>().idx();                                                                                                                        \
      bool inner = TT::is_inner(TT::L);                                                                                                                      \
      std::vector<int> want{V(TT::P), V(TT::Q), V(TT::R)};                                                                                                   \
      if (hf < 0 || hf >= 2 * bf.nf || bf.fdel[hf / 2] || !rot_equal(bf.hfv(hf), want) || !std::count(bf.chf[c].begin(), bf.chf[c].end(), inner ? hf : (hf ^ 1)))      \
          VIOL(vs, "c15:tettopology:halfface", how << " cell " << c << ": halfface label " #L " = " << hf << " is not the " << (inner ? "cell's" : "opposite") << " halfface on " #P #Q #R);  \
      else {                                                                                                                                                 \
          auto gl = tt.get_label(HalfFaceHandle(hf), VertexHandle(V(TT::P)));                                                                                \
          if (!gl || *gl != TT::L) VIOL(vs, "c15:tettopology:get_label(hfh,vh)", how << " cell " << c << " label " #L);                                       \
          auto g0 = tt.get_label(HalfFaceHandle(hf));                                                                                                        \
          if (!g0 || ((*g0) & ~3) != (TT::L & ~3)) VIOL(vs, "c15:tettopology:get_label(hfh)", how << " cell " << c << " label " #L);                          \
          if (inner) {                                                                                                                                       \
              auto tri = tt.triangle_topology<TT::L>();                                                                                                      \
              if (tri.a().idx() != V(TT::P) || tri.b().idx() != V(TT::Q) || tri.c().idx() != V(TT::R)) VIOL(vs, "c15:triangletopology:vertices", how << " cell " << c << " label " #L);  \
              else if (bf.from(tri.ab().idx()) != V(TT::P) || bf.to(tri.ab().idx()) != V(TT::Q) || bf.from(tri.bc().idx()) != V(TT::Q) || bf.to(tri.bc().idx()) != V(TT::R) ||           \
                       bf.from(tri.ca().idx()) != V(TT::R) || bf.to(tri.ca().idx()) != V(TT::P)) VIOL(vs, "c15:triangletopology:halfedges", how << " cell " << c << " label " #L);        \
          } } }
    TT_HFL_LIST(X)
#undef X
    for (int k = 0; k < 4; ++k) { auto gl = tt.get_label(VertexHandle(v[k])); if (!gl || (int)*gl != k) VIOL(vs, "c15:tettopology:get_label(vh)", how << " cell " << c); }
    (void)m;
}

inline void check_c15_state(const Sys &s, const Bf &bf, Viols &vs, Stats &st) {
    const Mesh &m = s.m;
    for (int f = 0; f < bf.nf; ++f) if (!bf.fdel[f] && bf.hfhe[2 * f].size() != 3) VIOL(vs, "c15:shape:face-valence", "face " << f << " has " << bf.hfhe[2 * f].size() << " edges");
    for (int c = 0; c < bf.nc; ++c) {
        if (bf.cdel[c]) continue;
        if (bf.chf[c].size() != 4) { VIOL(vs, "c15:shape:cell-valence", "cell " << c << " has " << bf.chf[c].size() << " faces"); continue; }
        if (bf.cv(c).size() != 4) { VIOL(vs, "c15:shape:cell-vertices", "cell " << c << " has " << bf.cv(c).size() << " distinct vertices"); continue; }
    }
    if (!vs.empty() || !m.has_full_bottom_up_incidences() || bf.hf_in_two_cells) return;
    for (int c = 0; c < bf.nc; ++c) {
        if (bf.cdel[c] || !is_tet(bf, c)) continue;
        st.hit("c15-tets");
        CellHandle ch(c);
        auto base = idxs(m.get_cell_vertices(ch));
        {
            int hf0 = bf.chf[c][0];
            auto want = bf.hfv(hf0); want.push_back(apex_of(bf, c, hf0));
            if (base != want) VIOL(vs, "c15:get_cell_vertices(ch)", "cell " << c << ": " << vstr(base) << " expected " << vstr(want));
            // tet vertex iterator agrees, full circulator protocol
            circ_protocol("tv", c, [&](int l) { return m.tv_iter(ch, l); }, [&](int l) { return m.tet_vertices(ch, l); }, want, SEQ, vs, st);
        }
        for (int hf : bf.chf[c]) {
            HalfFaceHandle hfh(hf);
            int apex = apex_of(bf, c, hf);
            auto want = bf.hfv(hf); want.push_back(apex);
            auto got = idxs(m.get_cell_vertices(hfh));
            if (got != want) VIOL(vs, "c15:get_cell_vertices(hfh)", "cell " << c << " halfface " << hf << ": " << vstr(got) << " expected " << vstr(want));
            if (m.halfface_opposite_vertex(hfh).idx() != apex) VIOL(vs, "c15:halfface_opposite_vertex", "halfface " << hf << " -> " << m.halfface_opposite_vertex(hfh).idx() << " expected " << apex);
            if (m.vertex_opposite_halfface(ch, VertexHandle(apex)).idx() != hf) VIOL(vs, "c15:vertex_opposite_halfface", "cell " << c << " vertex " << apex << " -> " << m.vertex_opposite_halfface(ch, VertexHandle(apex)).idx() << " expected " << hf);
            if (bf.cell_of(hf ^ 1) < 0 && m.halfface_opposite_vertex(HalfFaceHandle(hf ^ 1)).is_valid()) VIOL(vs, "c15:halfface_opposite_vertex:boundary", "boundary halfface " << (hf ^ 1));
            for (size_t i = 0; i < 3; ++i) {
                int he = bf.hfhe[hf][i];
                auto cyc = bf.hfv(hf);
                std::vector<int> w{cyc[i], cyc[(i + 1) % 3], cyc[(i + 2) % 3], apex};
                auto g = idxs(m.get_cell_vertices(hfh, HalfEdgeHandle(he)));
                if (g != w) VIOL(vs, "c15:get_cell_vertices(hfh,heh)", "halfface " << hf << " halfedge " << he << ": " << vstr(g) << " expected " << vstr(w));
                st.hit("c15-vertex-order-checks");
            }
            // TetTopology constructors anchored at this halfface
            for (int a : bf.hfv(hf)) {
                check_tettopology(m, bf, c, TetTopology(m, ch, hfh, VertexHandle(a)), "TetTopology(ch,hfh,a)", vs, st);
                check_tettopology(m, bf, c, TetTopology(m, hfh, VertexHandle(a)), "TetTopology(hfh,a)", vs, st);
                { TetTopology t(m, ch, hfh, VertexHandle(a)); if (t.vh<TetTopology::A>().idx() != a || t.hfh<TetTopology::ABC>().idx() != hf) VIOL(vs, "c15:tettopology:anchor", "cell " << c << " halfface " << hf << " a=" << a); }
            }
            check_tettopology(m, bf, c, TetTopology(m, ch, hfh), "TetTopology(ch,hfh)", vs, st);
            if (!vs.empty()) return;
        }
        for (int v : bf.cv(c)) {
            auto g = idxs(m.get_cell_vertices(ch, VertexHandle(v)));
            std::set<int> gs(g.begin(), g.end());
            if (g.size() != 4 || gs != bf.cv(c) || g[0] != v || !same_orientation4(base, g)) VIOL(vs, "c15:get_cell_vertices(ch,vh)", "cell " << c << " from vertex " << v << ": " << vstr(g) << " (base " << vstr(base) << ")");
            check_tettopology(m, bf, c, TetTopology(m, ch, VertexHandle(v)), "TetTopology(ch,a)", vs, st);
            { TetTopology t(m, ch, VertexHandle(v)); if (t.vh<TetTopology::A>().idx() != v) VIOL(vs, "c15:tettopology:anchor", "cell " << c << " a=" << v); }
        }
        check_tettopology(m, bf, c, TetTopology(m, ch), "TetTopology(ch)", vs, st);
        if (!vs.empty()) return;
    }
}

// oriented cells in vertex-label space, canonical up to even permutations
inline std::vector<int> canon_oriented(std::vector<int> t) {
    std::vector<int> best;
    std::vector<int> p = t;
    std::sort(p.begin(), p.end());
    do { if (same_orientation4(t, p)) { if (best.empty() || p < best) best = p; } } while (std::next_permutation(p.begin(), p.end()));
    return best;
}
inline std::set<std::vector<int>> oriented_cells(const Sys &s, const Bf &bf) {
    std::set<std::vector<int>> r;
    for (int c = 0; c < bf.nc; ++c) {
        if (bf.cdel[c] || !is_tet(bf, c)) continue;
        auto t = bf.hfv(bf.chf[c][0]);
        t.push_back(apex_of(bf, c, bf.chf[c][0]));
        for (auto &x : t) x = s.vl[VertexHandle(x)];
        r.insert(canon_oriented(t));
    }
    return r;
}
// link condition for the edge (a,b) on the simplicial complex spanned by the live vertices, edges, faces, cells
inline bool link_condition(const Bf &bf, int he) {
    int a = bf.from(he), b = bf.to(he);
    if (a == b) return false;
    std::set<std::set<int>> simplices;
    for (int v = 0; v < bf.nv; ++v) if (!bf.vdel[v]) simplices.insert({v});
    for (int e = 0; e < bf.ne; ++e) if (!bf.edel[e]) simplices.insert({bf.ev[e][0], bf.ev[e][1]});
    for (int f = 0; f < bf.nf; ++f) if (!bf.fdel[f]) { auto v = bf.hfv(2 * f); simplices.insert(std::set<int>(v.begin(), v.end())); }
    for (int c = 0; c < bf.nc; ++c) if (!bf.cdel[c]) simplices.insert(bf.cv(c));
    auto link = [&](const std::set<int> &sigma) {
        std::set<std::set<int>> r;
        for (auto &t : simplices) {
            bool contains = true;
            for (int x : sigma) if (!t.count(x)) contains = false;
            if (!contains || t.size() == sigma.size()) continue;
            std::set<int> rest;
            for (int x : t) if (!sigma.count(x)) rest.insert(x);
            r.insert(rest);
            // all non-empty subsets of rest are in the link too (closure)
            std::vector<int> rv(rest.begin(), rest.end());
            for (unsigned mask = 1; mask < (1u << rv.size()); ++mask) { std::set<int> sub; for (size_t i = 0; i < rv.size(); ++i) if (mask & (1u << i)) sub.insert(rv[i]); r.insert(sub); }
        }
        return r;
    };
    auto la = link({a}), lb = link({b}), lab = link({a, b});
    std::set<std::set<int>> inter;
    for (auto &x : la) if (lb.count(x)) inter.insert(x);
    return inter == lab;
}
inline bool clean_complex(const Bf &bf) {
    std::set<std::set<int>> es, fs;
    for (int e = 0; e < bf.ne; ++e) if (!bf.edel[e]) { if (bf.ev[e][0] == bf.ev[e][1]) return false; if (!es.insert({bf.ev[e][0], bf.ev[e][1]}).second) return false; }
    for (int f = 0; f < bf.nf; ++f) if (!bf.fdel[f]) { auto v = bf.hfv(2 * f); std::set<int> sv(v.begin(), v.end()); if (v.size() != 3 || sv.size() != 3 || !fs.insert(sv).second) return false; }
    for (int c = 0; c < bf.nc; ++c) if (!bf.cdel[c] && !is_tet(bf, c)) return false;
    return true;
}
#endif  // MC_TET

#if defined(MC_HEX)
inline bool is_hex_cell(const Bf &bf, int c) {
    if (bf.chf[c].size() != 6) return false;
    for (int hf : bf.chf[c]) if (bf.hfhe[hf].size() != 4) return false;
    std::set<std::set<int>> quads;  // six different quads (no pillow pairs)
    for (int hf : bf.chf[c]) { auto v = bf.hfv(hf); quads.insert(std::set<int>(v.begin(), v.end())); }
    return quads.size() == 6 && bf.cv(c).size() == 8 && closed_surface(bf, bf.chf[c]);
}
inline int adj_in_cell_brute(const Bf &bf, int c, int hf, int he) {
    int r = -1;
    for (int g : bf.chf[c]) { if (g == hf) continue; if (std::count(bf.hfhe[g].begin(), bf.hfhe[g].end(), he ^ 1)) { if (r >= 0) return -2; r = g; } }
    return r;
}
inline void check_c16_state(const Sys &s, const Bf &bf, Viols &vs, Stats &st) {
    const Mesh &m = s.m;
    using HK = HexahedralMeshTopologyKernel;
    for (int f = 0; f < bf.nf; ++f) if (!bf.fdel[f] && bf.hfhe[2 * f].size() != 4) VIOL(vs, "c16:shape:face-valence", "face " << f << " has " << bf.hfhe[2 * f].size() << " edges");
    for (int c = 0; c < bf.nc; ++c) {
        if (bf.cdel[c]) continue;
        if (bf.chf[c].size() != 6) { VIOL(vs, "c16:shape:cell-valence", "cell " << c << " has " << bf.chf[c].size() << " faces"); continue; }
        if (bf.cv(c).size() != 8) VIOL(vs, "c16:shape:cell-vertices", "cell " << c << " has " << bf.cv(c).size() << " distinct vertices");
    }
    for (unsigned char d = 0; d < 6; ++d) if (HK::opposite_orientation(d) != (d ^ 1)) VIOL(vs, "c16:opposite_orientation", (int)d);
    // orthogonal_orientation: antisymmetric, orthogonal to both arguments, right-handed w.r.t. the layout (XF x YF = ZF)
    {
        auto axis = [](int o) { return o / 2; };
        auto sign = [](int o) { return o % 2 == 0 ? 1 : -1; };
        for (int a = 0; a < 6; ++a) for (int b = 0; b < 6; ++b) {
            int r = HK::orthogonal_orientation((unsigned char)a, (unsigned char)b);
            if (axis(a) == axis(b)) { if (r != HK::INVALID) VIOL(vs, "c16:orthogonal_orientation", "(" << a << "," << b << ") -> " << r << " for parallel directions"); continue; }
            int ax = 3 - axis(a) - axis(b);
            int levi = ((axis(a) + 1) % 3 == axis(b)) ? 1 : -1;
            int sg = sign(a) * sign(b) * levi;
            int want = 2 * ax + (sg > 0 ? 0 : 1);
            if (r != want) VIOL(vs, "c16:orthogonal_orientation", "(" << a << "," << b << ") -> " << r << " expected " << want);
        }
    }
    if (!vs.empty() || !m.has_full_bottom_up_incidences() || bf.hf_in_two_cells) return;
    for (int c = 0; c < bf.nc; ++c) {
        if (bf.cdel[c] || !is_hex_cell(bf, c)) continue;
        st.hit("c16-hexes");
        CellHandle ch(c);
        const auto &H = bf.chf[c];
        // stored order convention
        for (int k = 0; k < 3; ++k) {
            auto a = bf.hfv(H[2 * k]), b = bf.hfv(H[2 * k + 1]);
            for (int x : a) if (std::count(b.begin(), b.end(), x)) { VIOL(vs, "c16:order:opposite-pair-shares-vertex", "cell " << c << " halffaces at positions " << 2 * k << "," << 2 * k + 1 << " share vertex " << x << " (stored order " << vstr(H) << ")"); break; }
        }
        {
            std::vector<int> seq;
            for (int he : bf.hfhe[H[0]]) { int g = adj_in_cell_brute(bf, c, H[0], he); int pos = -1; for (int i = 0; i < 6; ++i) if (H[i] == g) pos = i; seq.push_back(pos); }
            if (!rot_equal(seq, {2, 4, 3, 5})) VIOL(vs, "c16:order:handedness", "cell " << c << ": walking the first halfface meets positions " << vstr(seq) << ", expected a rotation of [2,4,3,5]");
        }
        for (int i = 0; i < 6; ++i) {
            HalfFaceHandle hfh(H[i]);
            if (m.orientation(hfh, ch) != i) VIOL(vs, "c16:orientation", "cell " << c << " halfface " << H[i] << " -> " << (int)m.orientation(hfh, ch) << " expected " << i);
            if (m.opposite_halfface_handle_in_cell(hfh, ch).idx() != H[i ^ 1]) VIOL(vs, "c16:opposite_halfface_handle_in_cell", "cell " << c << " halfface " << H[i]);
            if (m.get_oriented_halfface((unsigned char)i, ch).idx() != H[i]) VIOL(vs, "c16:get_oriented_halfface", "cell " << c << " dir " << i);
        }
        if (m.xfront_halfface(ch).idx() != H[0] || m.xback_halfface(ch).idx() != H[1] || m.yfront_halfface(ch).idx() != H[2] || m.yback_halfface(ch).idx() != H[3] || m.zfront_halfface(ch).idx() != H[4] || m.zback_halfface(ch).idx() != H[5]) VIOL(vs, "c16:front-back-accessors", "cell " << c);
        if (m.orientation(HalfFaceHandle(H[0] ^ 1), ch) != HK::INVALID) VIOL(vs, "c16:orientation-foreign", "cell " << c);
        // hex_vertices pattern
        {
            bool ra = false;
            auto hv = collect(m.hv_iter(ch), &ra);
            auto f0 = bf.hfv(H[0]);
            std::vector<int> want4{f0[0], f0[3], f0[2], f0[1]};
            std::set<int> all(hv.begin(), hv.end());
            if (hv.size() != 8 || all.size() != 8 || all != bf.cv(c)) VIOL(vs, "c16:hex_vertices:set", "cell " << c << ": " << vstr(hv));
            else {
                if (std::vector<int>(hv.begin(), hv.begin() + 4) != want4) VIOL(vs, "c16:hex_vertices:first-four", "cell " << c << ": " << vstr(hv) << " expected to start with " << vstr(want4));
                auto f1 = bf.hfv(H[1]);
                std::set<int> s1(f1.begin(), f1.end()), l4(hv.begin() + 4, hv.end());
                if (s1 != l4) VIOL(vs, "c16:hex_vertices:last-four", "cell " << c << ": " << vstr(hv));
                auto ce = bf.ce(c);
                auto joined = [&](int a, int b) { for (int e : ce) if ((bf.ev[e][0] == a && bf.ev[e][1] == b) || (bf.ev[e][0] == b && bf.ev[e][1] == a)) return true; return false; };
                if (!joined(hv[0], hv[4]) || !joined(hv[1], hv[7]) || !joined(hv[2], hv[6]) || !joined(hv[3], hv[5])) VIOL(vs, "c16:hex_vertices:pattern", "cell " << c << ": " << vstr(hv) << " (0-4, 1-7, 2-6, 3-5 must be edges of the cell)");
                circ_protocol("hv", c, [&](int l) { return m.hv_iter(ch, l); }, [&](int l) { return m.hex_vertices(ch, l); }, hv, SEQ, vs, st);
            }
        }
        // sheet circulators
        for (int d = 0; d < 6; ++d) {
            std::set<int> want;
            for (int i = 0; i < 6; ++i) if (i != d && i != (d ^ 1)) for (int n : bf.cells_of_hf[H[i] ^ 1]) want.insert(n);
            std::vector<int> w(want.begin(), want.end());
            circ_protocol("csc", c, [&](int l) { return m.csc_iter(ch, (unsigned char)d, l); }, [&](int l) { return m.cell_sheet_cells(ch, (unsigned char)d, l); }, w, SET, vs, st);
            st.hit("c16-sheet-checks");
            // halfface sheet: halffaces of those neighbours that contain an opposite halfedge of the reference halfface
            std::vector<int> wh;
            for (int n : want) for (int g : bf.chf[n]) { bool shares = false; for (int he : bf.hfhe[H[d]]) if (std::count(bf.hfhe[g].begin(), bf.hfhe[g].end(), he ^ 1)) shares = true; if (shares) wh.push_back(g); }
            circ_protocol("hfshf", H[d], [&](int l) { return m.hfshf_iter(HalfFaceHandle(H[d]), l); }, [&](int l) { return m.halfface_sheet_halffaces(HalfFaceHandle(H[d]), l); }, wh, MULTI, vs, st);
        }
        if (!vs.empty()) return;
    }
}
#endif  // MC_HEX

// ---- extra operations of the specialised kernels
inline std::vector<Op> special_menu(const Sys &s, const Bf &bf, bool collapse) {
    std::vector<Op> r;
    (void)s; (void)collapse;
#if defined(MC_TET)
    std::vector<int> lv;
    for (int i = 0; i < bf.nv; ++i) if (!bf.vdel[i]) lv.push_back(i);
    if (s.m.has_full_bottom_up_incidences() && bf.nc < 5)
        for (size_t a = 0; a < lv.size(); ++a) for (size_t b = a + 1; b < lv.size(); ++b) for (size_t c = b + 1; c < lv.size(); ++c) for (size_t d = c + 1; d < lv.size(); ++d) {
            r.push_back(Op(ADD_CELL_V, {1, lv[a], lv[b], lv[c], lv[d]}));
            r.push_back(Op(ADD_CELL_V, {1, lv[b], lv[a], lv[c], lv[d]}));
        }
    if (collapse && s.m.has_full_bottom_up_incidences() && !bf.hf_in_two_cells && clean_complex(bf))
        for (int he = 0; he < 2 * bf.ne; ++he) if (!bf.edel[he / 2] && link_condition(bf, he)) r.push_back(Op(COLLAPSE, {he}));
#elif defined(MC_HEX)
    // re-create a hex over an existing free closed surface of 6 quads, its 8 vertices given in all 24 cube rotations
    if (!s.m.has_full_bottom_up_incidences() || bf.nc >= 5) return r;
    std::vector<std::vector<int>> surfs;
    enum_surfaces(bf, 6, surfs);
    for (auto &sf : surfs) {
        if (sf.size() != 6) continue;
        bool quads = true;
        std::set<int> vs8;
        std::set<std::pair<int, int>> edges;
        for (int hf : sf) { if (bf.hfhe[hf].size() != 4) quads = false; for (int he : bf.hfhe[hf]) { vs8.insert(bf.from(he)); edges.insert({bf.from(he), bf.to(he)}); } }
        if (!quads || vs8.size() != 8) continue;
        auto cyc = bf.hfv(sf[0]);  // = (v3,v2,v1,v0) in the kernel's layout
        int v[8];
        v[3] = cyc[0]; v[2] = cyc[1]; v[1] = cyc[2]; v[0] = cyc[3];
        auto up = [&](int x) { for (auto &e : edges) if (e.first == x && !std::count(cyc.begin(), cyc.end(), e.second)) return e.second; return -1; };
        v[4] = up(v[0]); v[5] = up(v[3]); v[6] = up(v[2]); v[7] = up(v[1]);
        bool ok = true;
        for (int i = 4; i < 8; ++i) if (v[i] < 0) ok = false;
        if (!ok) continue;
        // coordinates of the 8 argument positions on the unit cube (centred, doubled)
        static const int P[8][3] = {{-1, -1, -1}, {1, -1, -1}, {1, 1, -1}, {-1, 1, -1}, {-1, -1, 1}, {-1, 1, 1}, {1, 1, 1}, {1, -1, 1}};
        int perm[3] = {0, 1, 2};
        do {
            for (int sg = 0; sg < 8; ++sg) {
                int sx[3] = {(sg & 1) ? -1 : 1, (sg & 2) ? -1 : 1, (sg & 4) ? -1 : 1};
                int parity = ((perm[0] == 0 && perm[1] == 1) || (perm[0] == 1 && perm[1] == 2) || (perm[0] == 2 && perm[1] == 0)) ? 1 : -1;
                if (parity * sx[0] * sx[1] * sx[2] != 1) continue;  // proper rotations only
                std::vector<int> a{1};
                for (int i = 0; i < 8; ++i) {
                    int q[3];
                    for (int k = 0; k < 3; ++k) q[k] = sx[k] * P[i][perm[k]];
                    int j = -1;
                    for (int t = 0; t < 8; ++t) if (P[t][0] == q[0] && P[t][1] == q[1] && P[t][2] == q[2]) j = t;
                    a.push_back(v[j]);
                }
                r.push_back(Op(ADD_CELL_V, a));
            }
        } while (std::next_permutation(perm, perm + 3));
    }
#endif
    return r;
}

// C16: every 6-tuple over a pool made of one free closed hex surface (all 720 permutations of it among them) plus
// a few other-side halffaces, through the topology-checked add_cell
inline std::vector<Op> menu_c16_perm(const Sys &s, const Bf &bf, const Caps &caps) {
    std::vector<Op> r;
    (void)s;
    std::vector<std::vector<int>> surfs;
    enum_surfaces(bf, 6, surfs);
    for (auto &sf : surfs) {
        if (sf.size() != 6) continue;
        std::set<int> v8;
        bool quads = true;
        for (int hf : sf) { if (bf.hfhe[hf].size() != 4) quads = false; for (int he : bf.hfhe[hf]) v8.insert(bf.from(he)); }
        if (!quads || v8.size() != 8) continue;
        std::vector<int> pool = sf;
        // pool <= 7: all tuples (with repetition) over the surface [+ one opposite side];
        // pool  > 7: the surface plus OTHER free quad halffaces of the mesh (e.g. the outer halffaces of a neighbouring hex, whose
        //            side faces are coplanar with the freed ones), all tuples WITHOUT repetition - lists that mix two hexes
        const bool injective = caps.pool > 7;
        if (!injective) { for (int i = 0; (int)pool.size() < caps.pool && i < 6; ++i) pool.push_back(sf[i] ^ 1); }
        else {
            for (int hf = 0; hf < 2 * bf.nf && (int)pool.size() < caps.pool; ++hf) {
                if (bf.fdel[hf / 2] || bf.hfhe[hf].size() != 4 || !bf.cells_of_hf[hf].empty() || std::count(pool.begin(), pool.end(), hf)) continue;
                pool.push_back(hf);
            }
        }
        std::vector<int> cur;
        std::function<void()> rec = [&]() {
            if (cur.size() == 6) { std::vector<int> a{1}; a.insert(a.end(), cur.begin(), cur.end()); r.push_back(Op(ADD_CELL_HF, a)); return; }
            for (int h : pool) { if (injective && std::count(cur.begin(), cur.end(), h)) continue; cur.push_back(h); rec(); cur.pop_back(); }
        };
        rec();
        break;  // one surface per state
    }
    return r;
}

inline void special_circulators_c05(const Sys &s, const Bf &bf, Viols &vs, Stats &st) {
#if defined(MC_TET)
    const Mesh &m = s.m;
    if (!m.has_full_bottom_up_incidences()) return;
    for (int c = 0; c < bf.nc; ++c) {
        if (bf.cdel[c] || !is_tet(bf, c)) continue;
        auto want = bf.hfv(bf.chf[c][0]); want.push_back(apex_of(bf, c, bf.chf[c][0]));
        circ_protocol("tv", c, [&](int l) { return m.tv_iter(CellHandle(c), l); }, [&](int l) { return m.tet_vertices(CellHandle(c), l); }, want, SEQ, vs, st);
    }
#elif defined(MC_HEX)
    Viols v2;
    check_c16_state(s, bf, v2, st);  // includes the hv / csc / hfshf protocol checks
    for (auto &v : v2) if (v.rule.rfind("c05:", 0) == 0) vs.push_back(v);
#else
    (void)s; (void)bf; (void)vs; (void)st;
#endif
}

inline void special_c09(const Sys &s, const Bf &bf, Viols &vs, Stats &st) {
#if defined(MC_HEX)
    // adjacent_halfface_on_sheet / on_surface against brute force on hex cells
    const Mesh &m = s.m;
    if (!m.has_full_bottom_up_incidences() || s.tainted) return;
    for (int c = 0; c < bf.nc; ++c) {
        if (bf.cdel[c] || !is_hex_cell(bf, c)) continue;
        for (int hf : bf.chf[c]) for (int he : bf.hfhe[hf]) {
            // sheet neighbour across he: cross the adjacent halfface's opposite into the next cell, continue straight
            int a = adj_in_cell_brute(bf, c, hf, he);
            int want = -1;
            if (a >= 0 && bf.cell_of(a ^ 1) >= 0 && is_hex_cell(bf, bf.cell_of(a ^ 1))) want = adj_in_cell_brute(bf, bf.cell_of(a ^ 1), a ^ 1, he);
            int got = m.adjacent_halfface_on_sheet(HalfFaceHandle(hf), HalfEdgeHandle(he)).idx();
            if (want >= 0 && got != want) VIOL(vs, "c09:adjacent_halfface_on_sheet", "cell " << c << " halfface " << hf << " halfedge " << he << ": got " << got << " expected " << want);
            st.hit("c09-hex-sheet-adjacency");
        }
    }
#else
    (void)s; (void)bf; (void)vs; (void)st;
#endif
}

inline void check_special_kernel(const Sys &s, const Bf &bf, Viols &vs, Stats &st, bool c15, bool c16) {
#if defined(MC_TET)
    if (c15) check_c15_state(s, bf, vs, st);
#elif defined(MC_HEX)
    if (c16) check_c16_state(s, bf, vs, st);
#endif
    (void)s; (void)bf; (void)vs; (void)st; (void)c15; (void)c16;
}

}  // namespace mc
