// Tet / hex specific oracles (C15, C16) and the specialised circulators of C05 / C09.
#pragma once
#include "oracles_fwd.hh"
namespace mc {
inline void special_circulators_c05(const Sys &s, const Bf &bf, Viols &vs, Stats &st) {}
inline void special_c09(const Sys &s, const Bf &bf, Viols &vs, Stats &st) {}
}  // namespace mc
