// meshmc core: operations, system under test (mesh + harness-owned label properties),
// canonical state key, seeds.  Harness code reads private fields (for the key only)
// through -fno-access-control; it never writes them.
#pragma once
#include <OpenVolumeMesh/Mesh/PolyhedralMesh.hh>
#include <OpenVolumeMesh/Mesh/TetrahedralMesh.hh>
#include <OpenVolumeMesh/Mesh/HexahedralMesh.hh>
#include <OpenVolumeMesh/Attribs/StatusAttrib.hh>

#include <algorithm>
#include <array>
#include <cstdint>
#include <cstdio>
#include <cstring>
#include <functional>
#include <map>
#include <memory>
#include <set>
#include <sstream>
#include <string>
#include <unistd.h>
#include <vector>

namespace mc {
using namespace OpenVolumeMesh;
using Vec3d = Geometry::Vec3d;

#if defined(KERNEL_TET)
using Topo = TetrahedralMeshTopologyKernel;
static const char *KERNEL_NAME = "tet";
#define MC_TET 1
#elif defined(KERNEL_HEX)
using Topo = HexahedralMeshTopologyKernel;
static const char *KERNEL_NAME = "hex";
#define MC_HEX 1
#else
using Topo = TopologyKernel;
static const char *KERNEL_NAME = "poly";
#define MC_POLY 1
#endif
using Mesh = GeometryKernel<Vec3d, Topo>;

// ------------------------------------------------------------------ operations
enum OpK : uint8_t {
    ADD_VERTEX, ADD_N_VERTICES, ADD_EDGE, ADD_FACE_V, ADD_FACE_HE, ADD_CELL_HF, ADD_CELL_V,
    SET_EDGE, SET_FACE, SET_CELL, DEL_V, DEL_E, DEL_F, DEL_C, SWAP_V, SWAP_E, SWAP_F, SWAP_C,
    GC, CLEAR, DEFER, FAST, VBU, EBU, FBU, PROP_NEW, COLLAPSE, STATUS_GC, N_OPK
};
static const char *OPNAMES[N_OPK] = {
    "add_vertex", "add_n_vertices", "add_edge", "add_face_v", "add_face_he", "add_cell_hf", "add_cell_v",
    "set_edge", "set_face", "set_cell", "delete_vertex", "delete_edge", "delete_face", "delete_cell",
    "swap_vertex_indices", "swap_edge_indices", "swap_face_indices", "swap_cell_indices",
    "collect_garbage", "clear", "enable_deferred_deletion", "enable_fast_deletion",
    "enable_vertex_bottom_up_incidences", "enable_edge_bottom_up_incidences", "enable_face_bottom_up_incidences",
    "prop_new", "collapse_edge", "gc_with_marks"};

struct Op {
    OpK k = ADD_VERTEX;
    int8_t n = 0;
    int16_t a[10] = {0};
    Op() = default;
    Op(OpK k_, std::initializer_list<int> l) : k(k_) { for (int x : l) a[n++] = (int16_t)x; }
    Op(OpK k_, const std::vector<int> &l) : k(k_) { for (int x : l) a[n++] = (int16_t)x; }
    std::string str() const {
        std::string s = OPNAMES[k];
        for (int i = 0; i < n; ++i) s += " " + std::to_string(a[i]);
        return s;
    }
    static bool parse(const std::string &s, Op &o) {
        std::istringstream is(s);
        std::string name;
        if (!(is >> name)) return false;
        int k = -1;
        for (int i = 0; i < N_OPK; ++i) if (name == OPNAMES[i]) k = i;
        if (k < 0) return false;
        o = Op();
        o.k = (OpK)k;
        int x;
        while (is >> x && o.n < 10) o.a[o.n++] = (int16_t)x;
        return true;
    }
};
using Hist = std::vector<Op>;
inline std::string hist_str(const Hist &h) {
    std::string s;
    for (size_t i = 0; i < h.size(); ++i) s += (i ? ";" : "") + h[i].str();
    return s;
}
inline bool hist_parse(const std::string &s, Hist &h) {
    h.clear();
    size_t p = 0;
    while (p <= s.size()) {
        size_t q = s.find(';', p);
        if (q == std::string::npos) q = s.size();
        std::string t = s.substr(p, q - p);
        if (t.find_first_not_of(" \t\n") != std::string::npos) {
            Op o;
            if (!Op::parse(t, o)) return false;
            h.push_back(o);
        }
        p = q + 1;
    }
    return true;
}

// ------------------------------------------------------------------ crash context
// The current (seed, configuration, history, phase) is kept in a static buffer that a SIGABRT/SIGSEGV
// handler writes to stderr, so that a sanitizer report can be turned into a replay file.
static char g_ctx[8192];
static const char *g_phase = "";
inline void set_ctx(const std::string &s) {
    size_t n = std::min(s.size(), sizeof(g_ctx) - 1);
    memcpy(g_ctx, s.data(), n);
    g_ctx[n] = 0;
}
extern "C" inline void mc_crash_handler(int sig) {
    const char *p = "\nCRASH-CONTEXT: ";
    (void)!write(2, p, strlen(p));
    (void)!write(2, g_ctx, strlen(g_ctx));
    (void)!write(2, " |phase=", 8);
    (void)!write(2, g_phase, strlen(g_phase));
    (void)!write(2, "\n", 1);
    _exit(sig == 14 ? 98 : 99);
}

// ------------------------------------------------------------------ violations
struct Viol { std::string rule, detail; };
using Viols = std::vector<Viol>;
#define VIOL(vs, rule, ...) do { std::ostringstream _o; _o << __VA_ARGS__; (vs).push_back({rule, _o.str()}); } while (0)

template <class T> std::string vstr(const std::vector<T> &v) {
    std::ostringstream o;
    o << "[";
    for (size_t i = 0; i < v.size(); ++i) o << (i ? "," : "") << v[i];
    o << "]";
    return o.str();
}
inline std::string vstr(const std::vector<int> &v) { return vstr<int>(v); }
template <class H> std::vector<int> idxs(const std::vector<H> &v) {
    std::vector<int> r;
    for (auto h : v) r.push_back(h.idx());
    return r;
}

// ------------------------------------------------------------------ configuration
struct Config {
    bool deferred = true, fast = true, vbu = true, ebu = true, fbu = true;
    bool props = false;  // attach the typed property population (C03 & co.)
    std::string str() const {
        char b[64];
        snprintf(b, sizeof b, "d%df%dv%de%df%dp%d", deferred, fast, vbu, ebu, fbu, props);
        return b;
    }
};

// ------------------------------------------------------------------ system under test
// value functions of the property population: every value is a function of the entity's label
// (halfedges/halffaces: of 2*label+side), so a mis-permuted slot is visible.
inline int pv_int(int id) { return 1000 + 7 * id; }
inline bool pv_bool(int id) { return ((id * 5 + 3) / 2) & 1; }
inline double pv_dbl(int id) { return id + 0.25; }
inline std::string pv_str(int id) { return "s" + std::to_string(id) + std::string(id % 3, 'x'); }
inline Vec3d pv_vec(int id) { return Vec3d(id, 2.0 * id, -0.5 * id); }
inline Vec3d pos_of(int label) { return Vec3d(label, 0.5 * label, -label); }

template <class Tag> struct PropSet {
    std::optional<PropertyPtr<int, Tag>> i;          // private, anonymous
    std::optional<PropertyPtr<bool, Tag>> b;         // shared
    std::optional<PropertyPtr<double, Tag>> d;       // persistent
    std::optional<PropertyPtr<std::string, Tag>> s;  // private, named
    std::optional<PropertyPtr<Vec3d, Tag>> v;        // shared
    std::optional<PropertyPtr<int, Tag>> late;       // created in the middle of a history (PROP_NEW)
    void create(Mesh &m) {
        i = m.template create_private_property<int, Tag>("", -7);
        b = m.template request_property<bool, Tag>("pb", false);
        d = m.template create_persistent_property<double, Tag>("pd", -1.5);
        s = m.template create_private_property<std::string, Tag>("ps", "dflt");
        v = m.template request_property<Vec3d, Tag>("pv", Vec3d(9, 9, 9));
    }
};

struct Sys {
    Mesh m;
    Config cfg;
    // labels (harness-owned ordinary properties; default -1 == "not yet labelled")
    VertexPropertyT<int> vl;
    EdgePropertyT<int> el;
    FacePropertyT<int> fl;
    CellPropertyT<int> cl;
    HalfEdgePropertyT<int> hel;  // 2*label+side
    HalfFacePropertyT<int> hfl;
    PropSet<Entity::Vertex> pV;
    PropSet<Entity::Edge> pE;
    PropSet<Entity::HalfEdge> pHE;
    PropSet<Entity::Face> pF;
    PropSet<Entity::HalfFace> pHF;
    PropSet<Entity::Cell> pC;
    std::optional<MeshPropertyT<int>> pM;
    bool tainted = false;  // history contains set_face / set_cell (C09 excludes those)
    // C04: handles handed in for tracking by the last gc_with_marks (all slots of the pre-state + one invalid handle each)
    std::vector<VertexHandle> trk_v; std::vector<HalfEdgeHandle> trk_he; std::vector<HalfFaceHandle> trk_hf; std::vector<CellHandle> trk_c;
    bool late_created = false;

    explicit Sys(const Config &c)
        : cfg(c),
          vl(m.request_vertex_property<int>("L:v", -1)), el(m.request_edge_property<int>("L:e", -1)),
          fl(m.request_face_property<int>("L:f", -1)), cl(m.request_cell_property<int>("L:c", -1)),
          hel(m.request_halfedge_property<int>("L:he", -1)), hfl(m.request_halfface_property<int>("L:hf", -1)) {
        m.enable_deferred_deletion(c.deferred);
        m.enable_fast_deletion(c.fast);
        m.enable_vertex_bottom_up_incidences(c.vbu);
        m.enable_edge_bottom_up_incidences(c.ebu);
        m.enable_face_bottom_up_incidences(c.fbu);
        if (c.props) {
            pV.create(m); pE.create(m); pHE.create(m); pF.create(m); pHF.create(m); pC.create(m);
            pM = m.request_mesh_property<int>("pm", 5);
            (*pM)[MeshHandle(0)] = 4242;
        }
    }
    Sys(const Sys &) = delete;

    int next_label(int kind) const {  // 1 + max label over all slots (incl. pending-deleted)
        int mx = -1;
        if (kind == 0) for (size_t i = 0; i < m.n_vertices(); ++i) mx = std::max(mx, vl[VertexHandle((int)i)]);
        if (kind == 1) for (size_t i = 0; i < m.n_edges(); ++i) mx = std::max(mx, el[EdgeHandle((int)i)]);
        if (kind == 2) for (size_t i = 0; i < m.n_faces(); ++i) mx = std::max(mx, fl[FaceHandle((int)i)]);
        if (kind == 3) for (size_t i = 0; i < m.n_cells(); ++i) mx = std::max(mx, cl[CellHandle((int)i)]);
        return mx + 1;
    }

    template <class Tag, class H> void set_pop(PropSet<Tag> &p, H h, int id) {
        if (!cfg.props) return;
        (*p.i)[h] = pv_int(id); (*p.b)[h] = pv_bool(id); (*p.d)[h] = pv_dbl(id);
        (*p.s)[h] = pv_str(id); (*p.v)[h] = pv_vec(id);
        if (p.late) (*p.late)[h] = pv_int(id) + 1;
    }
    template <class Tag, class H> void chk_default(PropSet<Tag> &p, H h, const char *kind, Viols &vs) {
        if (!cfg.props) return;
        if ((*p.i)[h] != -7 || (*p.b)[h] != false || (*p.d)[h] != -1.5 || (*p.s)[h] != "dflt" ||
            !((*p.v)[h] == Vec3d(9, 9, 9)) || (p.late && (*p.late)[h] != -3))
            VIOL(vs, std::string("new-entity-default:") + kind, "new " << kind << " slot " << h.idx()
                                                                        << " does not hold the property defaults");
    }

    // give fresh labels to all still unlabelled slots (ascending handle order == creation order)
    void label_new(Viols *vs = nullptr) {
        Viols dummy;
        Viols &V = vs ? *vs : dummy;
        int nv = next_label(0), ne = next_label(1), nf = next_label(2), nc = next_label(3);
        for (size_t i = 0; i < m.n_vertices(); ++i) {
            VertexHandle h((int)i);
            if (vl[h] != -1) continue;
            chk_default(pV, h, "vertex", V);
            if (!(m.vertex(h) == Vec3d(0, 0, 0))) VIOL(V, "new-entity-default:position", "vertex " << i);
            vl[h] = nv; m.set_vertex(h, pos_of(nv)); set_pop(pV, h, nv); ++nv;
        }
        for (size_t i = 0; i < m.n_edges(); ++i) {
            EdgeHandle h((int)i);
            if (el[h] != -1) continue;
            chk_default(pE, h, "edge", V);
            el[h] = ne; set_pop(pE, h, ne);
            for (int s = 0; s < 2; ++s) {
                auto hh = h.halfedge_handle(s);
                if (hel[hh] != -1) VIOL(V, "new-entity-default:halfedge-label", "halfedge " << hh.idx());
                chk_default(pHE, hh, "halfedge", V);
                hel[hh] = 2 * ne + s; set_pop(pHE, hh, 2 * ne + s);
            }
            ++ne;
        }
        for (size_t i = 0; i < m.n_faces(); ++i) {
            FaceHandle h((int)i);
            if (fl[h] != -1) continue;
            chk_default(pF, h, "face", V);
            fl[h] = nf; set_pop(pF, h, nf);
            for (int s = 0; s < 2; ++s) {
                auto hh = h.halfface_handle(s);
                if (hfl[hh] != -1) VIOL(V, "new-entity-default:halfface-label", "halfface " << hh.idx());
                chk_default(pHF, hh, "halfface", V);
                hfl[hh] = 2 * nf + s; set_pop(pHF, hh, 2 * nf + s);
            }
            ++nf;
        }
        for (size_t i = 0; i < m.n_cells(); ++i) {
            CellHandle h((int)i);
            if (cl[h] != -1) continue;
            chk_default(pC, h, "cell", V);
            cl[h] = nc; set_pop(pC, h, nc); ++nc;
        }
    }
};

struct OpResult { int ret = -2; };

template <class H> std::vector<H> hl(const Op &o, int from) {
    std::vector<H> r;
    for (int i = from; i < o.n; ++i) r.push_back(H(o.a[i]));
    return r;
}

// Execute one operation on the real mesh.  Returns the returned handle index where there is one.
inline OpResult exec_op(Sys &s, const Op &o, Viols *vs = nullptr) {
    Mesh &m = s.m;
    OpResult r;
    switch (o.k) {
    case ADD_VERTEX: r.ret = m.add_vertex().idx(); break;
    case ADD_N_VERTICES: m.add_n_vertices((size_t)o.a[0]); break;
    case ADD_EDGE: r.ret = m.add_edge(VertexHandle(o.a[0]), VertexHandle(o.a[1]), o.a[2] != 0).idx(); break;
    case ADD_FACE_V: r.ret = m.add_face(hl<VertexHandle>(o, 0)).idx(); break;
    case ADD_FACE_HE: r.ret = m.add_face(hl<HalfEdgeHandle>(o, 1), o.a[0] != 0).idx(); break;
    case ADD_CELL_HF: r.ret = m.add_cell(hl<HalfFaceHandle>(o, 1), o.a[0] != 0).idx(); break;
    case ADD_CELL_V:
#if defined(MC_TET) || defined(MC_HEX)
        r.ret = m.add_cell(hl<VertexHandle>(o, 1), o.a[0] != 0).idx();
#endif
        break;
    case SET_EDGE: m.set_edge(EdgeHandle(o.a[0]), VertexHandle(o.a[1]), VertexHandle(o.a[2])); break;
    case SET_FACE: m.set_face(FaceHandle(o.a[0]), hl<HalfEdgeHandle>(o, 1)); s.tainted = true; break;
    case SET_CELL: m.set_cell(CellHandle(o.a[0]), hl<HalfFaceHandle>(o, 1)); s.tainted = true; break;
    case DEL_V: r.ret = m.delete_vertex(VertexHandle(o.a[0]))->idx(); break;
    case DEL_E: r.ret = m.delete_edge(EdgeHandle(o.a[0]))->idx(); break;
    case DEL_F: r.ret = m.delete_face(FaceHandle(o.a[0]))->idx(); break;
    case DEL_C: r.ret = m.delete_cell(CellHandle(o.a[0]))->idx(); break;
    case SWAP_V: m.swap_vertex_indices(VertexHandle(o.a[0]), VertexHandle(o.a[1])); break;
    case SWAP_E: m.swap_edge_indices(EdgeHandle(o.a[0]), EdgeHandle(o.a[1])); break;
    case SWAP_F: m.swap_face_indices(FaceHandle(o.a[0]), FaceHandle(o.a[1])); break;
    case SWAP_C: m.swap_cell_indices(CellHandle(o.a[0]), CellHandle(o.a[1])); break;
    case GC: m.collect_garbage(); break;
    case CLEAR: m.clear(o.a[0] != 0); break;
    case DEFER: m.enable_deferred_deletion(o.a[0] != 0); break;
    case FAST: m.enable_fast_deletion(o.a[0] != 0); break;
    case VBU: m.enable_vertex_bottom_up_incidences(o.a[0] != 0); break;
    case EBU: m.enable_edge_bottom_up_incidences(o.a[0] != 0); break;
    case FBU: m.enable_face_bottom_up_incidences(o.a[0] != 0); break;
    case PROP_NEW:
        if (s.cfg.props && !s.late_created) {
            s.late_created = true;
            auto mk = [&](auto &ps, auto tag, auto labelf, size_t n) {
                using Tag = decltype(tag);
                ps.late = m.template request_property<int, Tag>("late", -3);
                if (ps.late->size() != n) { if (vs) VIOL(*vs, "late-prop-size", "size " << ps.late->size() << " != " << n); return; }
                for (size_t i = 0; i < n; ++i) {
                    HandleT<Tag> h((int)i);
                    if ((*ps.late)[h] != -3 && vs) VIOL(*vs, "late-prop-default", "slot " << i);
                    (*ps.late)[h] = pv_int(labelf(h)) + 1;
                }
            };
            mk(s.pV, Entity::Vertex(), [&](VertexHandle h) { return s.vl[h]; }, m.n_vertices());
            mk(s.pE, Entity::Edge(), [&](EdgeHandle h) { return s.el[h]; }, m.n_edges());
            mk(s.pHE, Entity::HalfEdge(), [&](HalfEdgeHandle h) { return s.hel[h]; }, m.n_halfedges());
            mk(s.pF, Entity::Face(), [&](FaceHandle h) { return s.fl[h]; }, m.n_faces());
            mk(s.pHF, Entity::HalfFace(), [&](HalfFaceHandle h) { return s.hfl[h]; }, m.n_halffaces());
            mk(s.pC, Entity::Cell(), [&](CellHandle h) { return s.cl[h]; }, m.n_cells());
        }
        break;
    case STATUS_GC: {
        // a[0] mode: 0 deferred deletes + collect_garbage, 1 deferred deletes + enable_deferred_deletion(false),
        //            2/3 status marks + garbage_collection(manifold 0/1), 4/5 the same with every handle tracked
        // a[1..] marks: kind*1000 + handle (kind 0 V, 1 E, 2 F, 3 C), resolved through labels taken up front
        int mode = o.a[0];
        std::vector<std::pair<int, int>> marks;  // (kind, label)
        for (int i = 1; i < o.n; ++i) { int kind = o.a[i] / 1000, h = o.a[i] % 1000; marks.push_back({kind, kind == 0 ? s.vl[VertexHandle(h)] : kind == 1 ? s.el[EdgeHandle(h)] : kind == 2 ? s.fl[FaceHandle(h)] : s.cl[CellHandle(h)]}); }
        auto find = [&](int kind, int label) -> int {
            size_t n = kind == 0 ? m.n_vertices() : kind == 1 ? m.n_edges() : kind == 2 ? m.n_faces() : m.n_cells();
            for (size_t i = 0; i < n; ++i) {
                int l = kind == 0 ? s.vl[VertexHandle((int)i)] : kind == 1 ? s.el[EdgeHandle((int)i)] : kind == 2 ? s.fl[FaceHandle((int)i)] : s.cl[CellHandle((int)i)];
                bool del = kind == 0 ? m.is_deleted(VertexHandle((int)i)) : kind == 1 ? m.is_deleted(EdgeHandle((int)i)) : kind == 2 ? m.is_deleted(FaceHandle((int)i)) : m.is_deleted(CellHandle((int)i));
                if (l == label && !del) return (int)i;
            }
            return -1;
        };
        if (mode <= 1) {
            for (auto &mk : marks) { int h = find(mk.first, mk.second); if (h < 0) continue; if (mk.first == 0) m.delete_vertex(VertexHandle(h)); else if (mk.first == 1) m.delete_edge(EdgeHandle(h)); else if (mk.first == 2) m.delete_face(FaceHandle(h)); else m.delete_cell(CellHandle(h)); }
            if (mode == 0) m.collect_garbage(); else m.enable_deferred_deletion(false);
        } else {
            StatusAttrib status(m);
            for (auto &mk : marks) { int h = find(mk.first, mk.second); if (h < 0) continue; if (mk.first == 0) status[VertexHandle(h)].set_deleted(true); else if (mk.first == 1) status[EdgeHandle(h)].set_deleted(true); else if (mk.first == 2) status[FaceHandle(h)].set_deleted(true); else status[CellHandle(h)].set_deleted(true); }
            if (mode <= 3) status.garbage_collection(mode == 3);
            else {
                s.trk_v.clear(); s.trk_he.clear(); s.trk_hf.clear(); s.trk_c.clear();
                for (int i = -1; i < (int)m.n_vertices(); ++i) s.trk_v.push_back(VertexHandle(i));
                for (int i = -1; i < (int)m.n_halfedges(); ++i) s.trk_he.push_back(HalfEdgeHandle(i));
                for (int i = -1; i < (int)m.n_halffaces(); ++i) s.trk_hf.push_back(HalfFaceHandle(i));
                for (int i = -1; i < (int)m.n_cells(); ++i) s.trk_c.push_back(CellHandle(i));
                std::vector<VertexHandle *> pv; std::vector<HalfEdgeHandle *> phe; std::vector<HalfFaceHandle *> phf; std::vector<CellHandle *> pc;
                for (auto &h : s.trk_v) pv.push_back(&h);
                for (auto &h : s.trk_he) phe.push_back(&h);
                for (auto &h : s.trk_hf) phf.push_back(&h);
                for (auto &h : s.trk_c) pc.push_back(&h);
                status.garbage_collection(pv, phe, phf, pc, mode == 5);
            }
        }
        break;
    }
    case COLLAPSE:
#if defined(MC_TET)
        r.ret = m.collapse_edge(HalfEdgeHandle(o.a[0])).idx();
#endif
        break;
    default: break;
    }
    return r;
}

// ------------------------------------------------------------------ canonical key
struct Key128 {
    uint64_t a, b;
    bool operator==(const Key128 &o) const { return a == o.a && b == o.b; }
};
struct Key128Hash { size_t operator()(const Key128 &k) const { return (size_t)(k.a ^ (k.b * 0x9e3779b97f4a7c15ULL)); } };
inline Key128 hash128(const std::string &s) {
    uint64_t h1 = 0xcbf29ce484222325ULL, h2 = 0x84222325cbf29ce4ULL;
    for (unsigned char c : s) {
        h1 = (h1 ^ c) * 0x100000001b3ULL;
        h2 = (h2 + c) * 0x9e3779b97f4a7c15ULL;
        h2 ^= h2 >> 29;
    }
    return {h1, h2};
}

template <class T> void ser_val(std::ostream &o, const T &v) { o << v; }
inline void ser_val(std::ostream &o, const std::string &v) { o << v.size() << ':' << v; }
inline void ser_val(std::ostream &o, const Vec3d &v) { o << v[0] << '/' << v[1] << '/' << v[2]; }

// Serialise one tracked storage (known value types are dumped completely).
inline std::string ser_storage(const PropertyStorageBase *p) {
    std::ostringstream o;
    o.precision(17);
    o << (int)p->entity_type() << '|' << p->name() << '|' << p->internal_type_name() << '|' << p->shared() << p->persistent()
      << '|' << p->size() << '|';
    auto dump = [&](auto tag) -> bool {
        using T = decltype(tag);
        if (detail::internal_type_name<T>() != p->internal_type_name()) return false;
        auto *st = static_cast<const PropertyStorageT<T> *>(p);
        ser_val(o, st->def());
        o << '#';
        for (size_t i = 0; i < st->size(); ++i) { T v = st->data_vector()[i]; ser_val(o, v); o << ','; }
        return true;
    };
    if (!(dump(int()) || dump(bool()) || dump(double()) || dump(std::string()) || dump(Vec3d()) || dump(OpenVolumeMeshStatus())))
        o << "?";
    return o.str();
}
inline std::ostream &operator<<(std::ostream &o, const OpenVolumeMeshStatus &s) {
    return o << s.selected() << s.tagged() << s.deleted() << s.hidden();
}

// Complete concrete state of a mesh object (all TopologyKernel fields + every tracked property).
inline std::string full_key(const Mesh &m, bool with_props = true) {
    std::ostringstream o;
    o.precision(17);
    const TopologyKernel &t = m;
    o << "nv" << t.n_vertices_ << " fl" << t.v_bottom_up_ << t.e_bottom_up_ << t.f_bottom_up_ << t.deferred_deletion_
      << t.fast_deletion_ << " nd" << t.n_deleted_vertices_ << ',' << t.n_deleted_edges_ << ',' << t.n_deleted_faces_ << ','
      << t.n_deleted_cells_ << " E";
    for (auto &e : t.edges_) o << e.from_vertex().idx() << '>' << e.to_vertex().idx() << ',';
    o << " F";
    for (auto &f : t.faces_) { for (auto h : f.halfedges()) o << h.idx() << ' '; o << ','; }
    o << " C";
    for (auto &c : t.cells_) { for (auto h : c.halffaces()) o << h.idx() << ' '; o << ','; }
    o << " dv";
    for (bool b : t.vertex_deleted_) o << b;
    o << " de";
    for (bool b : t.edge_deleted_) o << b;
    o << " df";
    for (bool b : t.face_deleted_) o << b;
    o << " dc";
    for (bool b : t.cell_deleted_) o << b;
    o << " OV";
    for (auto &l : t.outgoing_hes_per_vertex_) { for (auto h : l) o << h.idx() << ' '; o << ','; }
    o << " IH";
    for (auto &l : t.incident_hfs_per_he_) { for (auto h : l) o << h.idx() << ' '; o << ','; }
    o << " IC";
    for (auto c : t.incident_cell_per_hf_) o << c.idx() << ',';
    if (with_props) {
        std::vector<std::string> ps;
        for (int et = 0; et < (int)n_entity_types; ++et)
            for (auto *p : t.storage_trackers_.get((EntityType)et)) ps.push_back(ser_storage(p));
        std::sort(ps.begin(), ps.end());  // tracker order is address order: excluded from the key
        o << " P";
        for (auto &p : ps) o << '{' << p << '}';
        for (int et = 0; et < (int)n_entity_types; ++et) o << " np" << t.persistent_props_.get((EntityType)et).size();
    }
    return o.str();
}
inline std::string sys_key(const Sys &s) { return full_key(s.m) + (s.tainted ? " T" : "") + (s.late_created ? " L" : ""); }

}  // namespace mc
