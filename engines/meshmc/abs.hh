// Label-space abstraction of a mesh state and the reference transition function ("RefMesh").
// No index arithmetic exists here: entities are identified by harness labels only.
#pragma once
#include "core.hh"

namespace mc {

struct Abs {
    struct E { int a = -1, b = -1; bool del = false; bool operator==(const E &o) const { return del == o.del && (del || (a == o.a && b == o.b)); } };
    struct F { std::vector<int> hes; bool del = false; bool operator==(const F &o) const { return del == o.del && (del || hes == o.hes); } };
    struct C { std::vector<int> hfs; bool del = false; bool operator==(const C &o) const { return del == o.del && (del || hfs == o.hfs); } };
    std::map<int, bool> V;  // label -> pending-deleted
    std::map<int, E> Es;
    std::map<int, F> Fs;
    std::map<int, C> Cs;
    bool deferred = true, fast = true, vbu = true, ebu = true, fbu = true;

    int nextV() const { return V.empty() ? 0 : V.rbegin()->first + 1; }
    int nextE() const { return Es.empty() ? 0 : Es.rbegin()->first + 1; }
    int nextF() const { return Fs.empty() ? 0 : Fs.rbegin()->first + 1; }
    int nextC() const { return Cs.empty() ? 0 : Cs.rbegin()->first + 1; }
    size_t liveV() const { size_t n = 0; for (auto &x : V) n += !x.second; return n; }
    size_t liveE() const { size_t n = 0; for (auto &x : Es) n += !x.second.del; return n; }
    size_t liveF() const { size_t n = 0; for (auto &x : Fs) n += !x.second.del; return n; }
    size_t liveC() const { size_t n = 0; for (auto &x : Cs) n += !x.second.del; return n; }

    void kill_v(int l) { if (deferred) V[l] = true; else V.erase(l); }
    void kill_e(int l) { if (deferred) { Es[l].del = true; } else Es.erase(l); }
    void kill_f(int l) { if (deferred) { Fs[l].del = true; } else Fs.erase(l); }
    void kill_c(int l) { if (deferred) { Cs[l].del = true; } else Cs.erase(l); }

    // upward closures by brute-force scans over the live definitions
    std::set<int> edges_of_vertex(int v) const {
        std::set<int> r;
        for (auto &e : Es) if (!e.second.del && (e.second.a == v || e.second.b == v)) r.insert(e.first);
        return r;
    }
    std::set<int> faces_of_edges(const std::set<int> &es) const {
        std::set<int> r;
        for (auto &f : Fs) if (!f.second.del) for (int he : f.second.hes) if (es.count(he / 2)) r.insert(f.first);
        return r;
    }
    std::set<int> cells_of_faces(const std::set<int> &fs) const {
        std::set<int> r;
        for (auto &c : Cs) if (!c.second.del) for (int hf : c.second.hfs) if (fs.count(hf / 2)) r.insert(c.first);
        return r;
    }
    void delete_closure(std::set<int> vs, std::set<int> es, std::set<int> fs, std::set<int> cs) {
        for (int v : vs) for (int e : edges_of_vertex(v)) es.insert(e);
        for (int f : faces_of_edges(es)) fs.insert(f);
        for (int c : cells_of_faces(fs)) cs.insert(c);
        for (int c : cs) kill_c(c);
        for (int f : fs) kill_f(f);
        for (int e : es) kill_e(e);
        for (int v : vs) kill_v(v);
    }
    void gc() {
        for (auto it = V.begin(); it != V.end();) it = it->second ? V.erase(it) : std::next(it);
        for (auto it = Es.begin(); it != Es.end();) it = it->second.del ? Es.erase(it) : std::next(it);
        for (auto it = Fs.begin(); it != Fs.end();) it = it->second.del ? Fs.erase(it) : std::next(it);
        for (auto it = Cs.begin(); it != Cs.end();) it = it->second.del ? Cs.erase(it) : std::next(it);
    }
    bool any_pending() const {
        for (auto &x : V) if (x.second) return true;
        for (auto &x : Es) if (x.second.del) return true;
        for (auto &x : Fs) if (x.second.del) return true;
        for (auto &x : Cs) if (x.second.del) return true;
        return false;
    }
    std::vector<int> live_edges_between(int a, int b) const {
        std::vector<int> r;
        for (auto &e : Es) if (!e.second.del && ((e.second.a == a && e.second.b == b) || (e.second.a == b && e.second.b == a))) r.push_back(e.first);
        return r;
    }
    std::string dump() const {
        std::ostringstream o;
        o << "V{";
        for (auto &x : V) o << x.first << (x.second ? "x" : "") << ' ';
        o << "} E{";
        for (auto &x : Es) { o << x.first; if (x.second.del) o << "x"; else o << ':' << x.second.a << '>' << x.second.b; o << ' '; }
        o << "} F{";
        for (auto &x : Fs) { o << x.first; if (x.second.del) o << "x"; else o << ':' << vstr(x.second.hes); o << ' '; }
        o << "} C{";
        for (auto &x : Cs) { o << x.first; if (x.second.del) o << "x"; else o << ':' << vstr(x.second.hfs); o << ' '; }
        o << "} flags d" << deferred << "f" << fast << " bu" << vbu << ebu << fbu;
        return o.str();
    }
};

// Read the label-space abstraction off the real mesh through the public API + label properties.
inline Abs extract(const Sys &s, Viols &vs) {
    const Mesh &m = s.m;
    Abs a;
    a.deferred = m.deferred_deletion_enabled(); a.fast = m.fast_deletion_enabled();
    a.vbu = m.has_vertex_bottom_up_incidences(); a.ebu = m.has_edge_bottom_up_incidences(); a.fbu = m.has_face_bottom_up_incidences();
    size_t nv = m.n_vertices(), ne = m.n_edges(), nf = m.n_faces(), nc = m.n_cells();
    if (s.vl.size() != nv || s.el.size() != ne || s.fl.size() != nf || s.cl.size() != nc || s.hel.size() != 2 * ne || s.hfl.size() != 2 * nf) {
        VIOL(vs, "label-prop-size", "label property sizes " << s.vl.size() << "," << s.el.size() << "," << s.fl.size() << "," << s.cl.size()
                                                           << " vs entity counts " << nv << "," << ne << "," << nf << "," << nc);
        return a;
    }
    auto dupchk = [&](const char *k, int label, bool fresh) {
        if (label < 0) VIOL(vs, std::string("label-missing:") + k, "an entity slot carries no label");
        else if (!fresh) VIOL(vs, std::string("label-duplicate:") + k, "label " << label << " occurs on two slots");
    };
    for (size_t i = 0; i < nv; ++i) { VertexHandle h((int)i); dupchk("v", s.vl[h], a.V.emplace(s.vl[h], m.is_deleted(h)).second); }
    for (size_t i = 0; i < ne; ++i) {
        EdgeHandle h((int)i);
        Abs::E e; e.del = m.is_deleted(h);
        if (!e.del) {
            auto f = m.edge(h).from_vertex(), t = m.edge(h).to_vertex();
            if (!m.is_valid(f) || !m.is_valid(t) || m.is_deleted(f) || m.is_deleted(t)) { VIOL(vs, "dangling:edge->vertex", "live edge " << i << " refers to vertex " << f.idx() << "/" << t.idx()); continue; }
            e.a = s.vl[f]; e.b = s.vl[t];
        }
        dupchk("e", s.el[h], a.Es.emplace(s.el[h], e).second);
    }
    for (size_t i = 0; i < nf; ++i) {
        FaceHandle h((int)i);
        Abs::F f; f.del = m.is_deleted(h);
        bool bad = false;
        if (!f.del)
            for (auto he : m.face(h).halfedges()) {
                if (!m.is_valid(he) || m.is_deleted(he)) { VIOL(vs, "dangling:face->halfedge", "live face " << i << " refers to halfedge " << he.idx()); bad = true; break; }
                f.hes.push_back(2 * s.el[he.edge_handle()] + he.subidx());
            }
        if (bad) continue;
        dupchk("f", s.fl[h], a.Fs.emplace(s.fl[h], f).second);
    }
    for (size_t i = 0; i < nc; ++i) {
        CellHandle h((int)i);
        Abs::C c; c.del = m.is_deleted(h);
        bool bad = false;
        if (!c.del)
            for (auto hf : m.cell(h).halffaces()) {
                if (!m.is_valid(hf) || m.is_deleted(hf)) { VIOL(vs, "dangling:cell->halfface", "live cell " << i << " refers to halfface " << hf.idx()); bad = true; break; }
                c.hfs.push_back(2 * s.fl[hf.face_handle()] + hf.subidx());
            }
        if (bad) continue;
        dupchk("c", s.cl[h], a.Cs.emplace(s.cl[h], c).second);
    }
    return a;
}

// An operation with its handle arguments translated into labels (taken in the pre-state).
struct LOp { OpK k; std::vector<int> a; };
inline LOp to_labels(const Sys &s, const Op &o) {
    LOp l; l.k = o.k;
    auto V = [&](int h) { return s.vl[VertexHandle(h)]; };
    auto E = [&](int h) { return s.el[EdgeHandle(h)]; };
    auto HE = [&](int h) { return 2 * s.el[EdgeHandle(h / 2)] + (h & 1); };
    auto F = [&](int h) { return s.fl[FaceHandle(h)]; };
    auto HF = [&](int h) { return 2 * s.fl[FaceHandle(h / 2)] + (h & 1); };
    auto C = [&](int h) { return s.cl[CellHandle(h)]; };
    switch (o.k) {
    case ADD_EDGE: l.a = {V(o.a[0]), V(o.a[1]), o.a[2]}; break;
    case ADD_FACE_V: for (int i = 0; i < o.n; ++i) l.a.push_back(V(o.a[i])); break;
    case ADD_FACE_HE: l.a.push_back(o.a[0]); for (int i = 1; i < o.n; ++i) l.a.push_back(HE(o.a[i])); break;
    case ADD_CELL_HF: l.a.push_back(o.a[0]); for (int i = 1; i < o.n; ++i) l.a.push_back(HF(o.a[i])); break;
    case ADD_CELL_V: l.a.push_back(o.a[0]); for (int i = 1; i < o.n; ++i) l.a.push_back(V(o.a[i])); break;
    case SET_EDGE: l.a = {E(o.a[0]), V(o.a[1]), V(o.a[2])}; break;
    case SET_FACE: l.a.push_back(F(o.a[0])); for (int i = 1; i < o.n; ++i) l.a.push_back(HE(o.a[i])); break;
    case SET_CELL: l.a.push_back(C(o.a[0])); for (int i = 1; i < o.n; ++i) l.a.push_back(HF(o.a[i])); break;
    case DEL_V: l.a = {V(o.a[0])}; break;
    case DEL_E: l.a = {E(o.a[0])}; break;
    case DEL_F: l.a = {F(o.a[0])}; break;
    case DEL_C: l.a = {C(o.a[0])}; break;
    case COLLAPSE: l.a = {HE(o.a[0])}; break;
    case STATUS_GC:
        l.a.push_back(o.a[0]);
        for (int i = 1; i < o.n; ++i) { int kind = o.a[i] / 1000, h = o.a[i] % 1000; l.a.push_back(kind); l.a.push_back(kind == 0 ? V(h) : kind == 1 ? E(h) : kind == 2 ? F(h) : C(h)); }
        break;
    default: for (int i = 0; i < o.n; ++i) l.a.push_back(o.a[i]); break;
    }
    return l;
}

// Reference transition.  `actual` (post-state abstraction) is consulted only to resolve the one place where the
// specification is non-deterministic: which of several parallel live edges add_face(vertices) reuses.
// Returns the label of the returned/created entity (or -1), for handle-returning operations.
inline int abs_apply(Abs &a, const LOp &o, const Abs *actual, Viols &vs) {
    switch (o.k) {
    case ADD_VERTEX: { int l = a.nextV(); a.V[l] = false; return l; }
    case ADD_N_VERTICES: for (int i = 0; i < o.a[0]; ++i) a.V[a.nextV()] = false; return -1;
    case ADD_EDGE: {
        if (!o.a[2]) { auto c = a.live_edges_between(o.a[0], o.a[1]); if (!c.empty()) return -100 - 0; }  // existing: caller checks membership
        int l = a.nextE(); Abs::E e; e.a = o.a[0]; e.b = o.a[1]; a.Es[l] = e; return l;
    }
    case ADD_FACE_V: {
        Abs::F f;
        int fl = a.nextF();
        size_t n = o.a.size();
        for (size_t i = 0; i < n; ++i) {
            int from = o.a[i], to = o.a[(i + 1) % n];
            auto c = a.live_edges_between(from, to);
            int el;
            if (c.empty()) { el = a.nextE(); Abs::E e; e.a = from; e.b = to; a.Es[el] = e; }
            else {
                el = c[0];
                if (c.size() > 1 && actual) {  // parallel edges: accept whichever live candidate the kernel picked
                    auto it = actual->Fs.find(fl);
                    if (it != actual->Fs.end() && i < it->second.hes.size() && std::count(c.begin(), c.end(), it->second.hes[i] / 2)) el = it->second.hes[i] / 2;
                }
            }
            f.hes.push_back(2 * el + (a.Es[el].b == from ? 1 : 0));
        }
        a.Fs[fl] = f;
        return fl;
    }
    case ADD_FACE_HE: { int l = a.nextF(); Abs::F f; f.hes.assign(o.a.begin() + 1, o.a.end()); a.Fs[l] = f; return l; }
    case ADD_CELL_HF: { int l = a.nextC(); Abs::C c; c.hfs.assign(o.a.begin() + 1, o.a.end()); a.Cs[l] = c; return l; }
    case SET_EDGE: a.Es[o.a[0]].a = o.a[1]; a.Es[o.a[0]].b = o.a[2]; return -1;
    case SET_FACE: a.Fs[o.a[0]].hes.assign(o.a.begin() + 1, o.a.end()); return -1;
    case SET_CELL: a.Cs[o.a[0]].hfs.assign(o.a.begin() + 1, o.a.end()); return -1;
    case DEL_V: a.delete_closure({o.a[0]}, {}, {}, {}); return -1;
    case DEL_E: a.delete_closure({}, {o.a[0]}, {}, {}); return -1;
    case DEL_F: a.delete_closure({}, {}, {o.a[0]}, {}); return -1;
    case DEL_C: a.delete_closure({}, {}, {}, {o.a[0]}); return -1;
    case SWAP_V: case SWAP_E: case SWAP_F: case SWAP_C: case PROP_NEW: return -1;
    case GC: if (a.deferred) a.gc(); return -1;
    case CLEAR: a.V.clear(); a.Es.clear(); a.Fs.clear(); a.Cs.clear(); return -1;
    case DEFER: if (a.deferred && !o.a[0]) a.gc(); a.deferred = o.a[0] != 0; return -1;
    case FAST: a.fast = o.a[0] != 0; return -1;
    case VBU: a.vbu = o.a[0] != 0; return -1;
    case EBU: a.ebu = o.a[0] != 0; return -1;
    case FBU: a.fbu = o.a[0] != 0; return -1;
    case STATUS_GC: {
        int mode = o.a[0];
        bool was_deferred = a.deferred;
        a.deferred = true;  // marked entities are deleted in deferred fashion, then collected together with what was pending before
        std::set<int> vs_, es_, fs_, cs_;
        for (size_t i = 1; i + 1 < o.a.size(); i += 2) { int kind = o.a[i], label = o.a[i + 1]; (kind == 0 ? vs_ : kind == 1 ? es_ : kind == 2 ? fs_ : cs_).insert(label); }
        // only entities that are still live can be deleted
        auto liveonly = [&](std::set<int> &x, auto &mp, auto isdel) { for (auto it = x.begin(); it != x.end();) { auto f = mp.find(*it); it = (f == mp.end() || isdel(f->second)) ? x.erase(it) : std::next(it); } };
        liveonly(vs_, a.V, [](bool d) { return d; });
        liveonly(es_, a.Es, [](const Abs::E &e) { return e.del; });
        liveonly(fs_, a.Fs, [](const Abs::F &f) { return f.del; });
        liveonly(cs_, a.Cs, [](const Abs::C &c) { return c.del; });
        a.delete_closure(vs_, es_, fs_, cs_);
        if (mode == 3 || mode == 5) {
            // manifoldness: faces in no live cell, then edges in no remaining face, then vertices in no remaining edge
            std::set<int> df, de, dv;
            for (auto &f : a.Fs) if (!f.second.del && a.cells_of_faces({f.first}).empty()) df.insert(f.first);
            a.delete_closure({}, {}, df, {});
            for (auto &e : a.Es) if (!e.second.del && a.faces_of_edges({e.first}).empty()) de.insert(e.first);
            a.delete_closure({}, de, {}, {});
            for (auto &v : a.V) if (!v.second && a.edges_of_vertex(v.first).empty()) dv.insert(v.first);
            a.delete_closure(dv, {}, {}, {});
            a.vbu = a.ebu = a.fbu = true;  // the manifoldness pass enables all bottom-up incidences (observable side effect)
        }
        a.gc();
        a.deferred = mode == 1 ? false : was_deferred;
        return -1;
    }
    default: VIOL(vs, "harness:unsupported-op", "abs_apply " << OPNAMES[o.k]); return -1;
    }
}

inline void abs_compare(const Abs &exp, const Abs &act, const char *pfx, Viols &vs) {
    std::string p = pfx;
    auto flags = [](const Abs &a) { return std::array<bool, 5>{a.deferred, a.fast, a.vbu, a.ebu, a.fbu}; };
    if (flags(exp) != flags(act)) VIOL(vs, p + "flags", "expected " << exp.dump() << " got " << act.dump());
    if (exp.V != act.V) VIOL(vs, p + "vertices", "expected " << exp.dump() << " got " << act.dump());
    else if (!(exp.Es == act.Es)) VIOL(vs, p + "edges", "expected " << exp.dump() << " got " << act.dump());
    else if (!(exp.Fs == act.Fs)) VIOL(vs, p + "faces", "expected " << exp.dump() << " got " << act.dump());
    else if (!(exp.Cs == act.Cs)) VIOL(vs, p + "cells", "expected " << exp.dump() << " got " << act.dump());
}

// counts / flags / genus derived from the reference's surviving set (C02)
inline void check_counts(const Sys &s, const Abs &a, Viols &vs) {
    const Mesh &m = s.m;
    auto chk = [&](const char *what, long got, long exp) { if (got != exp) VIOL(vs, std::string("count:") + what, what << " = " << got << ", expected " << exp); };
    chk("n_vertices", m.n_vertices(), a.V.size()); chk("n_edges", m.n_edges(), a.Es.size());
    chk("n_halfedges", m.n_halfedges(), 2 * a.Es.size()); chk("n_faces", m.n_faces(), a.Fs.size());
    chk("n_halffaces", m.n_halffaces(), 2 * a.Fs.size()); chk("n_cells", m.n_cells(), a.Cs.size());
    chk("n_logical_vertices", m.n_logical_vertices(), a.liveV()); chk("n_logical_edges", m.n_logical_edges(), a.liveE());
    chk("n_logical_halfedges", m.n_logical_halfedges(), 2 * a.liveE()); chk("n_logical_faces", m.n_logical_faces(), a.liveF());
    chk("n_logical_halffaces", m.n_logical_halffaces(), 2 * a.liveF()); chk("n_logical_cells", m.n_logical_cells(), a.liveC());
    chk("needs_garbage_collection", m.needs_garbage_collection(), a.any_pending());
    int g = 1 - ((int)a.liveV() - (int)a.liveE() + (int)a.liveF() - (int)a.liveC());
    chk("genus", m.genus(), (g % 2 == 0) ? g / 2 : -1);
    if (!a.deferred && a.any_pending()) VIOL(vs, "count:pending-in-immediate-mode", "pending deletions exist although deferred deletion is off");
}

}  // namespace mc
