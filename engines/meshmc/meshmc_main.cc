// meshmc: explicit-state exploration of the real mesh kernels (engine E1).
// One process = one job (kernel x seed x configuration x property); ./check schedules jobs over the cores.
#include "core.hh"
#include "seeds.hh"
#include "abs.hh"
#include "brute.hh"
#include "menu.hh"
#include "oracle_c01.hh"
#include "oracles.hh"

#include <chrono>
#include <csignal>
#include <fstream>
#include <unordered_set>

using namespace mc;

static std::string jesc(const std::string &s) {
    std::string r;
    for (char c : s) {
        if (c == '"' || c == '\\') { r += '\\'; r += c; }
        else if (c == '\n') r += "\\n";
        else if ((unsigned char)c < 32) r += ' ';
        else r += c;
    }
    return r;
}

struct Args {
    std::string prop = "C01", seed = "S6", out, replay;
    Config cfg;
    unsigned alpha = A_FULL, alpha2 = A_RESTRICTED;
    int depth = 1, depth2 = 0;
    Caps caps;
    size_t max_states = 0;
    bool warm = false;  // run the state's query battery on the SAME object before every transition and after it (hidden caches)
    double deadline = 0;
    bool list_seeds = false, has_replay = false;
    std::set<std::string> known;  // rules of listed known findings: counted, not reported, search continues
};

static Args parse(int argc, char **argv) {
    Args a;
    for (int i = 1; i < argc; ++i) {
        std::string k = argv[i];
        auto nxt = [&]() { return std::string(i + 1 < argc ? argv[++i] : ""); };
        if (k == "--prop") a.prop = nxt();
        else if (k == "--seed") a.seed = nxt();
        else if (k == "--out") a.out = nxt();
        else if (k == "--replay") { a.replay = nxt(); a.has_replay = true; }
        else if (k == "--cfg") {
            std::string c = nxt();  // d1f1v1e1f1p0
            if (c.size() >= 12) { a.cfg.deferred = c[1] == '1'; a.cfg.fast = c[3] == '1'; a.cfg.vbu = c[5] == '1'; a.cfg.ebu = c[7] == '1'; a.cfg.fbu = c[9] == '1'; a.cfg.props = c[11] == '1'; }
        } else if (k == "--alpha") a.alpha = (unsigned)std::stoul(nxt());
        else if (k == "--alpha2") a.alpha2 = (unsigned)std::stoul(nxt());
        else if (k == "--depth") a.depth = std::stoi(nxt());
        else if (k == "--depth2") a.depth2 = std::stoi(nxt());
        else if (k == "--caps") { std::string c = nxt(); sscanf(c.c_str(), "%d,%d,%d,%d,%d,%d,%d", &a.caps.v, &a.caps.e, &a.caps.f, &a.caps.c, &a.caps.lf, &a.caps.lc, &a.caps.pool); }
        else if (k == "--max-states") a.max_states = std::stoul(nxt());
        else if (k == "--deadline") a.deadline = std::stod(nxt());
        else if (k == "--warm") a.warm = std::stoi(nxt()) != 0;
        else if (k == "--list-seeds") a.list_seeds = true;
        else if (k == "--known") { std::string c = nxt(); size_t p = 0; while (p <= c.size()) { size_t q = c.find(',', p); if (q == std::string::npos) q = c.size(); if (q > p) a.known.insert(c.substr(p, q - p)); p = q + 1; } }
    }
    return a;
}

struct Found { Hist h; Viol v; };

int main(int argc, char **argv) {
    signal(SIGABRT, mc_crash_handler);
    signal(SIGSEGV, mc_crash_handler);
    signal(SIGBUS, mc_crash_handler);
    signal(SIGFPE, mc_crash_handler);
    signal(SIGALRM, mc_crash_handler);
    Args A = parse(argc, argv);
    if (A.list_seeds) {
        for (int i = 0; i < N_SEEDS; ++i) if (seed_applicable(SEEDS[i])) printf("%s\n", SEEDS[i].name);
        return 0;
    }
    auto t0 = std::chrono::steady_clock::now();
    auto elapsed = [&]() { return std::chrono::duration<double>(std::chrono::steady_clock::now() - t0).count(); };
    const std::string ctx_base = std::string("kernel=") + KERNEL_NAME + " prop=" + A.prop + " seed=" + A.seed + " cfg=" + A.cfg.str() + " history=";
    PropChecks pc(A.prop);
    pc.cur_seed = A.seed; pc.cur_cfg = A.cfg;
    Stats st;

    // rebuild a state: fresh objects, seed, history replayed (states are histories; mesh copy is itself under test)
    auto rebuild = [&](const Hist &h, Sys &s) -> bool {
        g_phase = "seed";
        if (!build_seed(s, A.seed)) return false;
        g_phase = "replay";
        for (auto &o : h) { exec_op(s, o); s.label_new(); }
        return true;
    };

    std::vector<Found> found;
    std::map<std::string, Found> known_found;
    int total_depth = std::max(A.depth, A.depth2);
    size_t transitions = 0, max_branch = 0, states = 0;
    std::vector<size_t> level_states;
    bool capped = false;
    int completed_depth = -1;
    std::vector<std::string> samples;

    // ---------------------------------------------------------------- replay mode: one history, no search
    if (A.has_replay) {
        Hist h;
        if (!hist_parse(A.replay, h)) { fprintf(stderr, "bad --replay\n"); return 2; }
        set_ctx(ctx_base + hist_str(h));
        Sys s(A.cfg);
        g_phase = "seed";
        if (!build_seed(s, A.seed)) { fprintf(stderr, "unknown seed\n"); return 2; }
        Viols vs;
        {
            g_phase = "state-check(seed)";
            pc.state_checks(s, vs, st);
        }
        for (size_t i = 0; i < h.size() && vs.empty(); ++i) {
            g_phase = "transition";
            pc.transition(s, h[i], vs, st, A.seed, A.cfg, Hist(h.begin(), h.begin() + i));
            if (!vs.empty()) break;
            g_phase = "state-check";
            pc.cur_hist = Hist(h.begin(), h.begin() + i + 1);
            pc.state_checks(s, vs, st);
        }
        for (auto &v : vs) printf("REPLAY-VIOLATION rule=%s detail=%s\n", v.rule.c_str(), v.detail.c_str());
        printf("REPLAY-KEY %016llx\n", (unsigned long long)hash128(sys_key(s)).a);
        if (vs.empty()) printf("REPLAY-OK\n");
        return vs.empty() ? 0 : 1;
    }

    // ---------------------------------------------------------------- BFS
    std::unordered_set<Key128, Key128Hash> seen;
    std::vector<Hist> frontier, next;
    {
        set_ctx(ctx_base);
        Sys s(A.cfg);
        if (!rebuild({}, s)) { fprintf(stderr, "unknown seed %s\n", A.seed.c_str()); return 2; }
        Viols vs;
        g_phase = "state-check(seed)";
        Viols ev;
        extract(s, ev);
        for (auto &v : ev) vs.push_back(v);
        pc.state_checks(s, vs, st);
        if (!vs.empty()) found.push_back({{}, vs[0]});
        seen.insert(hash128(sys_key(s)));
        frontier.push_back({});
        states = 1;
        level_states.push_back(1);
        completed_depth = 0;
    }
    for (int level = 0; level < total_depth && found.empty() && !capped; ++level) {
        unsigned alpha = level < A.depth ? A.alpha : A.alpha2;
        next.clear();
        for (size_t fi = 0; fi < frontier.size() && found.empty(); ++fi) {
            const Hist &h = frontier[fi];
            std::vector<Op> ops;
            Key128 k0;
            {
                set_ctx(ctx_base + hist_str(h));
                Sys s(A.cfg);
                rebuild(h, s);
                g_phase = "menu";
                Bf bf(s.m);
                ops = pc.menu(s, bf, alpha, A.caps);
                k0 = hash128(sys_key(s));
            }
            max_branch = std::max(max_branch, ops.size());
            // C11 probe alphabet: calls that left the state unchanged (rejected / deduplicated) and up to one accepted call per operation kind,
            // for the history-sensitivity check below
            const bool c11_probe = A.prop == "C11" && (alpha & A_ADDCV);
            std::vector<Op> noop_ops;
            std::vector<std::pair<Op, Key128>> acc_ops;
            for (auto &o : ops) {
                Hist h2 = h;
                h2.push_back(o);
                set_ctx(ctx_base + hist_str(h2));
                Sys s(A.cfg);
                rebuild(h, s);
                if (!(hash128(sys_key(s)) == k0)) { found.push_back({h, {"harness:replay-divergence", "replaying a history twice gave different canonical keys"}}); break; }
                Viols vs;
                if (A.warm) {
                    // every const query of the property's battery runs on this very object before the operation: state that a query
                    // leaves behind (a cache, a scratch buffer) is then exposed to the operation and to the queries after it
                    Viols w;
                    g_phase = "warm-up";
                    pc.cur_hist = h;
                    pc.state_checks(s, w, st);
                }
                g_phase = "transition";
                pc.transition(s, o, vs, st, A.seed, A.cfg, h);
                ++transitions;
                if (vs.empty()) {
                    Key128 k = hash128(sys_key(s));
                    if (c11_probe) {
                        if (k == k0) noop_ops.push_back(o);
                        else { bool have = false; for (auto &a : acc_ops) if (a.first.k == o.k) have = true; if (!have) acc_ops.push_back({o, k}); }
                    }
                    const bool isnew = seen.insert(k).second;
                    if (!isnew && A.warm) { g_phase = "state-check(warm)"; pc.cur_hist = h2; pc.state_checks(s, vs, st); }
                    if (isnew) {
                        ++states;
                        g_phase = "state-check";
                        pc.cur_hist = h2;
                        pc.state_checks(s, vs, st);
                        if (level + 1 < total_depth) next.push_back(h2);
                        if (samples.size() < 3 && (states % 97 == 5 || level + 1 == total_depth)) samples.push_back(hist_str(h2));
                    }
                }
                if (!vs.empty()) {
                    const Viol *nv = nullptr;
                    for (auto &v : vs) { if (A.known.count(v.rule)) { if (!known_found.count(v.rule)) known_found[v.rule] = {h2, v}; } else if (!nv) nv = &v; }
                    if (nv) { found.push_back({h2, *nv}); break; }
                    // a state in which only listed known findings fail is not expanded further
                    if (!next.empty() && hist_str(next.back()) == hist_str(h2)) next.pop_back();
                }
                if (A.max_states && states >= A.max_states) { capped = true; break; }
            }
            // "a rejected or deduplicated call leaves every observable aspect of the mesh unchanged" includes later behaviour: after ALL the
            // no-op calls of this state on one object, an accepted call must give exactly the state it gives on a fresh object
            // (the canonical key cannot see scratch state that a rejected call may leave behind)
            if (c11_probe && found.empty() && !capped && !noop_ops.empty()) {
                for (auto &a : acc_ops) {
                    g_phase = "c11-history";
                    Sys s(A.cfg);
                    rebuild(h, s);
                    for (auto &r : noop_ops) { exec_op(s, r); s.label_new(); }
                    exec_op(s, a.first); s.label_new();
                    transitions += noop_ops.size() + 1;
                    st.hit("c11-history-sensitivity");
                    if (hash128(sys_key(s)) == a.second) continue;
                    // shrink: a single no-op call that already changes the outcome, else report the whole sequence
                    Hist bad = h;
                    bool single = false;
                    for (auto &r : noop_ops) {
                        Sys t(A.cfg);
                        rebuild(h, t);
                        exec_op(t, r); t.label_new();
                        exec_op(t, a.first); t.label_new();
                        if (!(hash128(sys_key(t)) == a.second)) { bad.push_back(r); single = true; break; }
                    }
                    if (!single) for (auto &r : noop_ops) bad.push_back(r);
                    bad.push_back(a.first);
                    found.push_back({bad, {std::string("c11:history-sensitive:") + OPNAMES[a.first.k], a.first.str() + " gives a different result after rejected/deduplicated calls on the same mesh than on a fresh one"}});
                    break;
                }
            }
            if (A.deadline > 0 && elapsed() > A.deadline) { capped = true; break; }
            if (capped) break;
        }
        if (found.empty() && !capped) completed_depth = level + 1;
        level_states.push_back(next.size());
        frontier.swap(next);
    }

    // ---------------------------------------------------------------- report
    std::ostringstream o;
    o << "{\"kernel\":\"" << KERNEL_NAME << "\",\"prop\":\"" << A.prop << "\",\"seed\":\"" << A.seed << "\",\"cfg\":\"" << A.cfg.str()
      << "\",\"alpha\":" << A.alpha << ",\"alpha2\":" << A.alpha2 << ",\"depth\":" << A.depth << ",\"depth2\":" << A.depth2
      << ",\"states\":" << states << ",\"transitions\":" << transitions << ",\"completed_depth\":" << completed_depth
      << ",\"capped\":" << (capped ? "true" : "false") << ",\"max_branching\":" << max_branch << ",\"wall_s\":" << elapsed()
      << ",\"checks\":{";
    bool first = true;
    for (auto &kv : st.counts) { o << (first ? "" : ",") << "\"" << jesc(kv.first) << "\":" << kv.second; first = false; }
    o << "},\"distinct_outcomes\":{";
    first = true;
    for (auto &kv : st.outcomes) { o << (first ? "" : ",") << "\"" << jesc(kv.first) << "\":" << kv.second.size(); first = false; }
    o << "},\"samples\":[";
    for (size_t i = 0; i < samples.size(); ++i) o << (i ? "," : "") << "\"" << jesc(samples[i]) << "\"";
    o << "],\"violations\":[";
    for (size_t i = 0; i < found.size(); ++i)
        o << (i ? "," : "") << "{\"history\":\"" << jesc(hist_str(found[i].h)) << "\",\"rule\":\"" << jesc(found[i].v.rule) << "\",\"detail\":\""
          << jesc(found[i].v.detail.substr(0, 1500)) << "\"}";
    o << "],\"known\":[";
    {
        bool f1 = true;
        for (auto &kv : known_found) {
            o << (f1 ? "" : ",") << "{\"history\":\"" << jesc(hist_str(kv.second.h)) << "\",\"rule\":\"" << jesc(kv.first) << "\",\"detail\":\"" << jesc(kv.second.v.detail.substr(0, 600)) << "\"}";
            f1 = false;
        }
    }
    o << "]}";
    if (!A.out.empty()) { std::ofstream f(A.out); f << o.str() << "\n"; }
    else printf("%s\n", o.str().c_str());
    return found.empty() ? 0 : 1;
}
