// Per-property oracles of engine E1 and their dispatch.
#pragma once
#include "abs.hh"
#include "brute.hh"
#include "menu.hh"
#include "oracle_c01.hh"

namespace mc {

struct Stats {
    std::map<std::string, long> counts;
    std::map<std::string, std::set<std::string>> outcomes;
    void hit(const std::string &k, long n = 1) { counts[k] += n; }
};

// ------------------------------------------------------------------------------------------- C03 helpers
template <class Tag, class LabelF>
void check_pop(const Sys &s, const PropSet<Tag> &p, size_t n, LabelF idf, std::function<bool(size_t)> live, const char *kind, Viols &vs) {
    if (!s.cfg.props) return;
    auto sz = [&](size_t got, const char *pn) { if (got != n) VIOL(vs, std::string("c03:size:") + kind, pn << " has " << got << " elements for " << n << " " << kind << " slots"); };
    sz(p.i->size(), "int"); sz(p.b->size(), "bool"); sz(p.d->size(), "double"); sz(p.s->size(), "string"); sz(p.v->size(), "vec");
    if (p.late) sz(p.late->size(), "late");
    if (!vs.empty()) return;
    for (size_t i = 0; i < n; ++i) {
        if (!live(i)) continue;
        HandleT<Tag> h((int)i);
        int id = idf(h);
        const char *bad = nullptr;
        if ((*p.i)[h] != pv_int(id)) bad = "int";
        else if ((*p.b)[h] != pv_bool(id)) bad = "bool";
        else if ((*p.d)[h] != pv_dbl(id)) bad = "double";
        else if ((*p.s)[h] != pv_str(id)) bad = "string";
        else if (!((*p.v)[h] == pv_vec(id))) bad = "vec";
        else if (p.late && (*p.late)[h] != pv_int(id) + 1) bad = "late";
        if (bad) VIOL(vs, std::string("c03:value:") + kind + ":" + bad, kind << " slot " << i << " (label id " << id << ") holds another entity's " << bad << " value");
    }
}

inline void check_c03_state(const Sys &s, Viols &vs) {
    const Mesh &m = s.m;
    size_t nv = m.n_vertices(), ne = m.n_edges(), nf = m.n_faces(), nc = m.n_cells();
    if (s.vl.size() != nv || s.el.size() != ne || s.hel.size() != 2 * ne || s.fl.size() != nf || s.hfl.size() != 2 * nf || s.cl.size() != nc) {
        VIOL(vs, "c03:size:labels", "label property sizes v" << s.vl.size() << " e" << s.el.size() << " he" << s.hel.size() << " f" << s.fl.size() << " hf" << s.hfl.size() << " c" << s.cl.size()
                                                              << " vs counts " << nv << "," << ne << "," << nf << "," << nc);
        return;
    }
    if (m.vertex_positions().size() != nv) { VIOL(vs, "c03:size:position", "position property has " << m.vertex_positions().size() << " elements for " << nv << " vertices"); return; }
    for (size_t i = 0; i < nv; ++i) {
        VertexHandle h((int)i);
        if (m.is_deleted(h)) continue;
        if (!(m.vertex(h) == pos_of(s.vl[h]))) VIOL(vs, "c03:value:position", "vertex slot " << i << " (label " << s.vl[h] << ") has another vertex's position");
    }
    for (size_t i = 0; i < 2 * ne; ++i) {
        HalfEdgeHandle h((int)i);
        if (m.is_deleted(h)) continue;
        if (s.hel[h] != 2 * s.el[h.edge_handle()] + h.subidx()) VIOL(vs, "c03:side:halfedge", "halfedge slot " << i << " carries value id " << s.hel[h] << " but edge label " << s.el[h.edge_handle()]);
    }
    for (size_t i = 0; i < 2 * nf; ++i) {
        HalfFaceHandle h((int)i);
        if (m.is_deleted(h)) continue;
        if (s.hfl[h] != 2 * s.fl[h.face_handle()] + h.subidx()) VIOL(vs, "c03:side:halfface", "halfface slot " << i << " carries value id " << s.hfl[h] << " but face label " << s.fl[h.face_handle()]);
    }
    if (!vs.empty()) return;
    check_pop(s, s.pV, nv, [&](VertexHandle h) { return s.vl[h]; }, [&](size_t i) { return !m.is_deleted(VertexHandle((int)i)); }, "vertex", vs);
    check_pop(s, s.pE, ne, [&](EdgeHandle h) { return s.el[h]; }, [&](size_t i) { return !m.is_deleted(EdgeHandle((int)i)); }, "edge", vs);
    check_pop(s, s.pHE, 2 * ne, [&](HalfEdgeHandle h) { return s.hel[h]; }, [&](size_t i) { return !m.is_deleted(HalfEdgeHandle((int)i)); }, "halfedge", vs);
    check_pop(s, s.pF, nf, [&](FaceHandle h) { return s.fl[h]; }, [&](size_t i) { return !m.is_deleted(FaceHandle((int)i)); }, "face", vs);
    check_pop(s, s.pHF, 2 * nf, [&](HalfFaceHandle h) { return s.hfl[h]; }, [&](size_t i) { return !m.is_deleted(HalfFaceHandle((int)i)); }, "halfface", vs);
    check_pop(s, s.pC, nc, [&](CellHandle h) { return s.cl[h]; }, [&](size_t i) { return !m.is_deleted(CellHandle((int)i)); }, "cell", vs);
    if (s.cfg.props && (s.pM->size() != 1 || (*s.pM)[MeshHandle(0)] != 4242)) VIOL(vs, "c03:mesh-prop", "mesh property changed");
}

// ------------------------------------------------------------------------------------------- C17 helpers
// Per-slot view of everything attached to a handle: label, deletion flag, property population.
struct SlotView { std::vector<std::string> v, e, he, f, hf, c; };
template <class Tag> std::string pop_str(const Sys &s, const PropSet<Tag> &p, HandleT<Tag> h) {
    if (!s.cfg.props) return "";
    std::ostringstream o;
    o << (*p.i)[h] << '|' << (*p.b)[h] << '|' << (*p.d)[h] << '|' << (*p.s)[h] << '|' << (*p.v)[h][0] << ',' << (*p.v)[h][1];
    if (p.late) o << '|' << (*p.late)[h];
    return o.str();
}
inline SlotView slot_view(const Sys &s) {
    const Mesh &m = s.m;
    SlotView r;
    auto S = [](int label, bool del, const std::string &pop) { return std::to_string(label) + (del ? "x" : "") + "#" + pop; };
    for (size_t i = 0; i < m.n_vertices(); ++i) { VertexHandle h((int)i); std::ostringstream p; p << m.vertex(h)[0]; r.v.push_back(S(s.vl[h], m.is_deleted(h), p.str() + "@" + pop_str(s, s.pV, h))); }
    for (size_t i = 0; i < m.n_edges(); ++i) { EdgeHandle h((int)i); r.e.push_back(S(s.el[h], m.is_deleted(h), pop_str(s, s.pE, h))); }
    for (size_t i = 0; i < m.n_halfedges(); ++i) { HalfEdgeHandle h((int)i); r.he.push_back(S(s.hel[h], m.is_deleted(h), pop_str(s, s.pHE, h))); }
    for (size_t i = 0; i < m.n_faces(); ++i) { FaceHandle h((int)i); r.f.push_back(S(s.fl[h], m.is_deleted(h), pop_str(s, s.pF, h))); }
    for (size_t i = 0; i < m.n_halffaces(); ++i) { HalfFaceHandle h((int)i); r.hf.push_back(S(s.hfl[h], m.is_deleted(h), pop_str(s, s.pHF, h))); }
    for (size_t i = 0; i < m.n_cells(); ++i) { CellHandle h((int)i); r.c.push_back(S(s.cl[h], m.is_deleted(h), pop_str(s, s.pC, h))); }
    return r;
}

// ------------------------------------------------------------------------------------------- dispatch
struct PropChecks {
    std::string prop;
    bool c01 = false, c02 = false, c03 = false, c17 = false;
    explicit PropChecks(const std::string &p) : prop(p) {
        c01 = p == "C01"; c02 = p == "C02"; c03 = p == "C03"; c17 = p == "C17";
    }

    std::vector<Op> menu(const Sys &s, const Bf &bf, unsigned alpha, const Caps &caps) { return mc::menu(s, bf, alpha, caps); }

    // Executes o on s (and labels new entities), checking the transition-level rules of the selected property.
    void transition(Sys &s, const Op &o, Viols &vs, Stats &st, const std::string &seed, const Config &cfg, const Hist &pre_hist) {
        const bool need_abs = c02 || c03 || c17;
        Abs pre;
        LOp lo;
        SlotView sv_pre;
        std::string key_pre;
        bool is_swap = o.k >= SWAP_V && o.k <= SWAP_C;
        if (need_abs) {
            Viols ev;
            pre = extract(s, ev);
            if (!ev.empty()) { vs.push_back({"pre:" + ev[0].rule, ev[0].detail}); return; }
            lo = to_labels(s, o);
        }
        if (c17 && is_swap) { sv_pre = slot_view(s); key_pre = sys_key(s); }
        g_phase = "exec";
        Viols dv;
        exec_op(s, o, c03 ? &dv : nullptr);
        s.label_new(c03 ? &dv : nullptr);
        g_phase = "post-check";
        if (c03) for (auto &v : dv) vs.push_back({"c03:" + v.rule, v.detail});
        if (need_abs) {
            Viols ev;
            Abs post = extract(s, ev);
            const char *pfx = c02 ? "c02:" : c03 ? "c03:label-" : "c17:";
            if (!ev.empty()) { vs.push_back({pfx + ev[0].rule, ev[0].detail}); return; }
            Abs exp = pre;
            Viols av;
            abs_apply(exp, lo, &post, av);
            for (auto &v : av) vs.push_back(v);
            abs_compare(exp, post, (std::string(pfx) + "iso:").c_str(), vs);
            st.hit("iso-compare");
            if (c02) { Viols cv; check_counts(s, exp, cv); for (auto &v : cv) vs.push_back({"c02:" + v.rule, v.detail}); st.hit("count-check"); }
        }
        if (c03 && vs.empty()) { check_c03_state(s, vs); st.hit("c03-state"); }
        if (c17 && is_swap && vs.empty()) check_swap(s, o, sv_pre, key_pre, vs, st);
    }

    void check_swap(Sys &s, const Op &o, const SlotView &pre, const std::string &key_pre, Viols &vs, Stats &st) {
        int a = o.a[0], b = o.a[1];
        SlotView exp = pre;
        auto sw = [](std::vector<std::string> &v, int x, int y) { std::swap(v[x], v[y]); };
        if (o.k == SWAP_V) sw(exp.v, a, b);
        if (o.k == SWAP_E) { sw(exp.e, a, b); sw(exp.he, 2 * a, 2 * b); sw(exp.he, 2 * a + 1, 2 * b + 1); }
        if (o.k == SWAP_F) { sw(exp.f, a, b); sw(exp.hf, 2 * a, 2 * b); sw(exp.hf, 2 * a + 1, 2 * b + 1); }
        if (o.k == SWAP_C) sw(exp.c, a, b);
        SlotView got = slot_view(s);
        auto cmp = [&](const char *k, const std::vector<std::string> &g, const std::vector<std::string> &e) {
            if (g != e) VIOL(vs, std::string("c17:slots:") + k, OPNAMES[o.k] << "(" << a << "," << b << "): " << k << " slots are " << vstr(g) << " expected " << vstr(e));
        };
        cmp("vertex", got.v, exp.v); cmp("edge", got.e, exp.e); cmp("halfedge", got.he, exp.he);
        cmp("face", got.f, exp.f); cmp("halfface", got.hf, exp.hf); cmp("cell", got.c, exp.c);
        st.hit("swap-slot-check");
        if (!vs.empty()) return;
        if (a == b && sys_key(s) != key_pre) VIOL(vs, "c17:self-swap", "swapping a handle with itself changed the state");
        // incidence answers of the relabelled mesh (all six kinds) against brute force
        Bf bf(s.m);
        Viols cv;
        check_c01(s, bf, cv);
        for (auto &v : cv) vs.push_back({"c17:incidence:" + v.rule, v.detail});
        if (!vs.empty()) return;
        // involution: the same swap again restores the exact original state (on a scratch replay of the same op)
        g_phase = "swap-twice";
        exec_op(s, o);
        std::string k2 = sys_key(s);
        if (k2 != key_pre) VIOL(vs, "c17:involution", "applying " << o.str() << " twice does not restore the original state");
        exec_op(s, o);  // back to the swapped state for the search to continue from
        st.hit("swap-involution-check");
    }

    void state_checks(const Sys &s, Viols &vs, Stats &st) {
        if (c01) {
            Bf bf(s.m);
            check_c01(s, bf, vs, &st.outcomes);
            st.hit("c01-state");
        }
        if (c03) { check_c03_state(s, vs); }
    }
};

}  // namespace mc
