// Per-property oracles of engine E1 and their dispatch.
#pragma once
#include "abs.hh"
#include "brute.hh"
#include "menu.hh"
#include "oracle_c01.hh"
#include "oracles_fwd.hh"
#include "oracle_state.hh"
#include "oracle_special.hh"

namespace mc {

// ------------------------------------------------------------------------------------------- C03 helpers
template <class Tag, class LabelF>
void check_pop(const Sys &s, const PropSet<Tag> &p, size_t n, LabelF idf, std::function<bool(size_t)> live, const char *kind, Viols &vs) {
    if (!s.cfg.props) return;
    auto sz = [&](size_t got, const char *pn) { if (got != n) VIOL(vs, std::string("c03:size:") + kind, pn << " has " << got << " elements for " << n << " " << kind << " slots"); };
    sz(p.i->size(), "int"); sz(p.b->size(), "bool"); sz(p.d->size(), "double"); sz(p.s->size(), "string"); sz(p.v->size(), "vec");
    if (p.late) sz(p.late->size(), "late");
    if (!vs.empty()) return;
    for (size_t i = 0; i < n; ++i) {
        if (!live(i)) continue;
        HandleT<Tag> h((int)i);
        int id = idf(h);
        const char *bad = nullptr;
        if ((*p.i)[h] != pv_int(id)) bad = "int";
        else if ((*p.b)[h] != pv_bool(id)) bad = "bool";
        else if ((*p.d)[h] != pv_dbl(id)) bad = "double";
        else if ((*p.s)[h] != pv_str(id)) bad = "string";
        else if (!((*p.v)[h] == pv_vec(id))) bad = "vec";
        else if (p.late && (*p.late)[h] != pv_int(id) + 1) bad = "late";
        if (bad) VIOL(vs, std::string("c03:value:") + kind + ":" + bad, kind << " slot " << i << " (label id " << id << ") holds another entity's " << bad << " value");
    }
}

inline void check_c03_state(const Sys &s, Viols &vs) {
    const Mesh &m = s.m;
    size_t nv = m.n_vertices(), ne = m.n_edges(), nf = m.n_faces(), nc = m.n_cells();
    if (s.vl.size() != nv || s.el.size() != ne || s.hel.size() != 2 * ne || s.fl.size() != nf || s.hfl.size() != 2 * nf || s.cl.size() != nc) {
        VIOL(vs, "c03:size:labels", "label property sizes v" << s.vl.size() << " e" << s.el.size() << " he" << s.hel.size() << " f" << s.fl.size() << " hf" << s.hfl.size() << " c" << s.cl.size()
                                                              << " vs counts " << nv << "," << ne << "," << nf << "," << nc);
        return;
    }
    if (m.vertex_positions().size() != nv) { VIOL(vs, "c03:size:position", "position property has " << m.vertex_positions().size() << " elements for " << nv << " vertices"); return; }
    for (size_t i = 0; i < nv; ++i) {
        VertexHandle h((int)i);
        if (m.is_deleted(h)) continue;
        if (!(m.vertex(h) == pos_of(s.vl[h]))) VIOL(vs, "c03:value:position", "vertex slot " << i << " (label " << s.vl[h] << ") has another vertex's position");
    }
    for (size_t i = 0; i < 2 * ne; ++i) {
        HalfEdgeHandle h((int)i);
        if (m.is_deleted(h)) continue;
        if (s.hel[h] != 2 * s.el[h.edge_handle()] + h.subidx()) VIOL(vs, "c03:side:halfedge", "halfedge slot " << i << " carries value id " << s.hel[h] << " but edge label " << s.el[h.edge_handle()]);
    }
    for (size_t i = 0; i < 2 * nf; ++i) {
        HalfFaceHandle h((int)i);
        if (m.is_deleted(h)) continue;
        if (s.hfl[h] != 2 * s.fl[h.face_handle()] + h.subidx()) VIOL(vs, "c03:side:halfface", "halfface slot " << i << " carries value id " << s.hfl[h] << " but face label " << s.fl[h.face_handle()]);
    }
    if (!vs.empty()) return;
    check_pop(s, s.pV, nv, [&](VertexHandle h) { return s.vl[h]; }, [&](size_t i) { return !m.is_deleted(VertexHandle((int)i)); }, "vertex", vs);
    check_pop(s, s.pE, ne, [&](EdgeHandle h) { return s.el[h]; }, [&](size_t i) { return !m.is_deleted(EdgeHandle((int)i)); }, "edge", vs);
    check_pop(s, s.pHE, 2 * ne, [&](HalfEdgeHandle h) { return s.hel[h]; }, [&](size_t i) { return !m.is_deleted(HalfEdgeHandle((int)i)); }, "halfedge", vs);
    check_pop(s, s.pF, nf, [&](FaceHandle h) { return s.fl[h]; }, [&](size_t i) { return !m.is_deleted(FaceHandle((int)i)); }, "face", vs);
    check_pop(s, s.pHF, 2 * nf, [&](HalfFaceHandle h) { return s.hfl[h]; }, [&](size_t i) { return !m.is_deleted(HalfFaceHandle((int)i)); }, "halfface", vs);
    check_pop(s, s.pC, nc, [&](CellHandle h) { return s.cl[h]; }, [&](size_t i) { return !m.is_deleted(CellHandle((int)i)); }, "cell", vs);
    if (s.cfg.props && (s.pM->size() != 1 || (*s.pM)[MeshHandle(0)] != 4242)) VIOL(vs, "c03:mesh-prop", "mesh property changed");
}

// ------------------------------------------------------------------------------------------- C17 helpers
// Per-slot view of everything attached to a handle: label, deletion flag, property population.
struct SlotView { std::vector<std::string> v, e, he, f, hf, c; };
template <class Tag> std::string pop_str(const Sys &s, const PropSet<Tag> &p, HandleT<Tag> h) {
    if (!s.cfg.props) return "";
    std::ostringstream o;
    o << (*p.i)[h] << '|' << (*p.b)[h] << '|' << (*p.d)[h] << '|' << (*p.s)[h] << '|' << (*p.v)[h][0] << ',' << (*p.v)[h][1];
    if (p.late) o << '|' << (*p.late)[h];
    return o.str();
}
inline SlotView slot_view(const Sys &s) {
    const Mesh &m = s.m;
    SlotView r;
    auto S = [](int label, bool del, const std::string &pop) { return std::to_string(label) + (del ? "x" : "") + "#" + pop; };
    for (size_t i = 0; i < m.n_vertices(); ++i) { VertexHandle h((int)i); std::ostringstream p; p << m.vertex(h)[0]; r.v.push_back(S(s.vl[h], m.is_deleted(h), p.str() + "@" + pop_str(s, s.pV, h))); }
    for (size_t i = 0; i < m.n_edges(); ++i) { EdgeHandle h((int)i); r.e.push_back(S(s.el[h], m.is_deleted(h), pop_str(s, s.pE, h))); }
    for (size_t i = 0; i < m.n_halfedges(); ++i) { HalfEdgeHandle h((int)i); r.he.push_back(S(s.hel[h], m.is_deleted(h), pop_str(s, s.pHE, h))); }
    for (size_t i = 0; i < m.n_faces(); ++i) { FaceHandle h((int)i); r.f.push_back(S(s.fl[h], m.is_deleted(h), pop_str(s, s.pF, h))); }
    for (size_t i = 0; i < m.n_halffaces(); ++i) { HalfFaceHandle h((int)i); r.hf.push_back(S(s.hfl[h], m.is_deleted(h), pop_str(s, s.pHF, h))); }
    for (size_t i = 0; i < m.n_cells(); ++i) { CellHandle h((int)i); r.c.push_back(S(s.cl[h], m.is_deleted(h), pop_str(s, s.pC, h))); }
    return r;
}

// ------------------------------------------------------------------------------------------- C12 helpers
inline std::string handle_defs(const Mesh &m) {
    std::ostringstream o;
    o << m.n_vertices() << '/' << m.n_edges() << '/' << m.n_faces() << '/' << m.n_cells() << " d" << m.deferred_deletion_enabled() << m.fast_deletion_enabled()
      << " g" << m.needs_garbage_collection() << " V";
    for (size_t i = 0; i < m.n_vertices(); ++i) o << (m.is_deleted(VertexHandle((int)i)) ? 'x' : '.');
    o << " E";
    for (size_t i = 0; i < m.n_edges(); ++i) { EdgeHandle h((int)i); if (m.is_deleted(h)) o << "x,"; else o << m.edge(h).from_vertex().idx() << '>' << m.edge(h).to_vertex().idx() << ','; }
    o << " F";
    for (size_t i = 0; i < m.n_faces(); ++i) { FaceHandle h((int)i); if (m.is_deleted(h)) o << "x,"; else { for (auto he : m.face(h).halfedges()) o << he.idx() << ' '; o << ','; } }
    o << " C";
    for (size_t i = 0; i < m.n_cells(); ++i) { CellHandle h((int)i); if (m.is_deleted(h)) o << "x,"; else { for (auto hf : m.cell(h).halffaces()) o << hf.idx() << ' '; o << ','; } }
    return o.str();
}

// circulators that (logically) need a disabled incidence kind must be invalid immediately
inline void check_disabled_circulators(const Sys &s, const Bf &bf, Viols &vs) {
    const Mesh &m = s.m;
    const bool vbu = m.has_vertex_bottom_up_incidences(), ebu = m.has_edge_bottom_up_incidences(), fbu = m.has_face_bottom_up_incidences();
    auto must_be_invalid = [&](bool valid, const char *name, int h) { if (valid) VIOL(vs, std::string("c12:circulator-valid-without-incidences:") + name, name << "(" << h << ") is valid although an incidence kind it needs is disabled"); };
    for (int v = 0; v < bf.nv; ++v) {
        if (bf.vdel[v]) continue;
        VertexHandle h(v);
        if (!vbu) { must_be_invalid(m.voh_iter(h).valid(), "voh_iter", v); must_be_invalid(m.vih_iter(h).valid(), "vih_iter", v); must_be_invalid(m.vv_iter(h).valid(), "vv_iter", v); must_be_invalid(m.ve_iter(h).valid(), "ve_iter", v); }
        if (!vbu || !ebu) { must_be_invalid(m.vhf_iter(h).valid(), "vhf_iter", v); must_be_invalid(m.vf_iter(h).valid(), "vf_iter", v); }
        if (!vbu || !ebu || !fbu) must_be_invalid(m.vc_iter(h).valid(), "vc_iter", v);
    }
    for (int he = 0; he < 2 * bf.ne; ++he) {
        if (bf.edel[he / 2]) continue;
        HalfEdgeHandle h(he);
        if (!ebu) { must_be_invalid(m.hehf_iter(h).valid(), "hehf_iter", he); must_be_invalid(m.hef_iter(h).valid(), "hef_iter", he); }
        if (!ebu || !fbu) must_be_invalid(m.hec_iter(h).valid(), "hec_iter", he);
        if ((he & 1) == 0) {
            EdgeHandle e(he / 2);
            if (!ebu) { must_be_invalid(m.ehf_iter(e).valid(), "ehf_iter", he / 2); must_be_invalid(m.ef_iter(e).valid(), "ef_iter", he / 2); }
            if (!ebu || !fbu) must_be_invalid(m.ec_iter(e).valid(), "ec_iter", he / 2);
        }
    }
    for (int hf = 0; hf < 2 * bf.nf; ++hf) {
        if (bf.fdel[hf / 2]) continue;
        if (!fbu || !ebu) must_be_invalid(m.bhfhf_iter(HalfFaceHandle(hf)).valid(), "bhfhf_iter", hf);
    }
    for (int c = 0; c < bf.nc; ++c) {
        if (bf.cdel[c]) continue;
        if (!fbu) must_be_invalid(m.cc_iter(CellHandle(c)).valid(), "cc_iter", c);
#if defined(MC_TET)
        if (!fbu && bf.chf[c].size() == 4) must_be_invalid(m.tv_iter(CellHandle(c)).valid(), "tv_iter", c);
#elif defined(MC_HEX)
        if (!fbu && bf.chf[c].size() == 6) {
            must_be_invalid(m.hv_iter(CellHandle(c)).valid(), "hv_iter", c);
            for (int d = 0; d < 6; ++d) must_be_invalid(m.csc_iter(CellHandle(c), (unsigned char)d).valid(), "csc_iter", c);
        }
#endif
    }
}

inline bool is_bu_toggle(const Op &o) { return o.k == VBU || o.k == EBU || o.k == FBU; }

// ------------------------------------------------------------------------------------------- dispatch
struct PropChecks {
    std::string prop;
    bool c01 = false, c02 = false, c03 = false, c17 = false, c12 = false, c05 = false, c08 = false, c09 = false, c10 = false, c11 = false, c04 = false, c13 = false, c15 = false, c16 = false;
    std::string cur_seed; Config cur_cfg; Hist cur_hist;  // set by the driver before state_checks (C13 rebuilds the state)
    explicit PropChecks(const std::string &p) : prop(p) {
        c01 = p == "C01"; c02 = p == "C02"; c03 = p == "C03"; c17 = p == "C17"; c12 = p == "C12";
        c05 = p == "C05"; c08 = p == "C08"; c09 = p == "C09"; c10 = p == "C10"; c11 = p == "C11"; c04 = p == "C04"; c13 = p == "C13"; c15 = p == "C15"; c16 = p == "C16";
    }
    void rebuild_current(Sys &s) const { build_seed(s, cur_seed); for (auto &o : cur_hist) { exec_op(s, o); s.label_new(); } }

    std::vector<Op> menu(const Sys &s, const Bf &bf, unsigned alpha, const Caps &caps) {
        if (c11 && (alpha & A_ADDCV)) return menu_c11(s, bf, caps);
#if defined(MC_HEX)
        if (c16 && (alpha & A_PERM)) return menu_c16_perm(s, bf, caps);
#endif  // A_ADDCV doubles as "probe alphabet" switch for C11
        auto ops = mc::menu(s, bf, alpha, caps);
        if (c15 || c16) {
            // the tet / hex properties quantify over meshes made of proper tetrahedra / hexahedra: cells that are closed
            // surfaces but no tets / hexes (e.g. two 'pillows') are outside their scope
            std::vector<Op> keep;
            for (auto &o : ops) {
                if (o.k == ADD_CELL_HF || o.k == SET_CELL) {
                    std::set<int> vsx;
                    for (int i = 1; i < o.n; ++i) for (int he : bf.hfhe[o.a[i]]) vsx.insert(bf.from(he));
                    if ((int)vsx.size() != (c15 ? 4 : 8)) continue;
                }
                keep.push_back(o);
            }
            ops.swap(keep);
        }
        if ((c15 || c16) && (alpha & A_ADDCV)) { auto sp = special_menu(s, bf, (alpha & A_COLLAPSE) != 0); ops.insert(ops.end(), sp.begin(), sp.end()); }
        if (c12) {
            // add_face(vertices) may reuse any of several parallel live edges; which one is unspecified and
            // legitimately depends on the incidence configuration, so such calls are left out of the differential run
            std::vector<Op> r;
            for (auto &o : ops) {
                bool amb = false;
                if (o.k == ADD_FACE_V)
                    for (int i = 0; i < o.n && !amb; ++i) {
                        int a = o.a[i], b = o.a[(i + 1) % o.n], cnt = 0;
                        for (int e = 0; e < bf.ne; ++e) if (!bf.edel[e] && ((bf.ev[e][0] == a && bf.ev[e][1] == b) || (bf.ev[e][0] == b && bf.ev[e][1] == a))) ++cnt;
                        amb = cnt > 1;
                    }
                if (!amb) r.push_back(o);
            }
            return r;
        }
        return ops;
    }

    // Executes o on s (and labels new entities), checking the transition-level rules of the selected property.
    void transition(Sys &s, const Op &o, Viols &vs, Stats &st, const std::string &seed, const Config &cfg, const Hist &pre_hist) {
        const bool need_abs = c02 || c03 || c17 || c12 || c11 || c04 || c15 || c16;
        std::unique_ptr<Sys> twin;
        if (c12) {
            // the twin runs the same history with every incidence kind permanently enabled
            Config tc = cfg; tc.vbu = tc.ebu = tc.fbu = true;
            g_phase = "twin-rebuild";
            twin.reset(new Sys(tc));
            build_seed(*twin, seed);
            for (auto &po : pre_hist) if (!is_bu_toggle(po)) { exec_op(*twin, po); twin->label_new(); }
            g_phase = "transition";
        }
        Abs pre;
        LOp lo;
        SlotView sv_pre;
        std::string key_pre;
        bool is_swap = o.k >= SWAP_V && o.k <= SWAP_C;
        if (need_abs) {
            Viols ev;
            pre = extract(s, ev);
            if (!ev.empty()) { vs.push_back({"pre:" + ev[0].rule, ev[0].detail}); return; }
            lo = to_labels(s, o);
        }
        if (c17 && is_swap) { sv_pre = slot_view(s); key_pre = sys_key(s); }
        std::vector<int> c04_vl, c04_hel, c04_hfl, c04_cl;  // labels per slot before the collection (-1 for pending-deleted slots)
        if (c04 && o.k == STATUS_GC) {
            const Mesh &m = s.m;
            for (size_t i = 0; i < m.n_vertices(); ++i) c04_vl.push_back(m.is_deleted(VertexHandle((int)i)) ? -1 : s.vl[VertexHandle((int)i)]);
            for (size_t i = 0; i < m.n_halfedges(); ++i) c04_hel.push_back(m.is_deleted(HalfEdgeHandle((int)i)) ? -1 : 2 * s.el[EdgeHandle((int)i / 2)] + ((int)i & 1));
            for (size_t i = 0; i < m.n_halffaces(); ++i) c04_hfl.push_back(m.is_deleted(HalfFaceHandle((int)i)) ? -1 : 2 * s.fl[FaceHandle((int)i / 2)] + ((int)i & 1));
            for (size_t i = 0; i < m.n_cells(); ++i) c04_cl.push_back(m.is_deleted(CellHandle((int)i)) ? -1 : s.cl[CellHandle((int)i)]);
        }
        bool special_op = (c15 || c16) && (o.k == ADD_CELL_V || o.k == COLLAPSE);
#if defined(MC_TET)
        std::set<std::vector<int>> c15_pre_cells;
        int c15_a = -1, c15_b = -1;
        if (special_op) { Bf bf0(s.m); c15_pre_cells = oriented_cells(s, bf0); if (o.k == COLLAPSE) { c15_a = s.vl[VertexHandle(bf0.from(o.a[0]))]; c15_b = s.vl[VertexHandle(bf0.to(o.a[0]))]; } }
#endif
#if defined(MC_HEX)
        size_t c16_nf = s.m.n_faces(), c16_nc = s.m.n_cells();
#endif
        int c11_expect = -1;  // -1 n/a, 0 must reject, 1 must accept, 2 may accept (as a set) or reject, 3 dedup (existing edge)
        std::vector<int> c11_existing;
        if ((c11 || c16) && (o.k == ADD_FACE_HE || o.k == ADD_CELL_HF || o.k == ADD_EDGE)) {
            Bf bf(s.m);
            key_pre = sys_key(s);
            std::vector<int> l;
            for (int i = 1; i < o.n; ++i) l.push_back(o.a[i]);
            if (o.k == ADD_EDGE) {
                for (int e = 0; e < bf.ne; ++e) if (!bf.edel[e] && ((bf.ev[e][0] == o.a[0] && bf.ev[e][1] == o.a[1]) || (bf.ev[e][0] == o.a[1] && bf.ev[e][1] == o.a[0]))) c11_existing.push_back(e);
                c11_expect = (!o.a[2] && !c11_existing.empty()) ? 3 : 1;
            } else if (o.k == ADD_FACE_HE) {
                bool ok = closed_loop(bf, l);
#if defined(MC_TET)
                ok = ok && l.size() == 3;
#elif defined(MC_HEX)
                ok = ok && l.size() == 4;
#endif
                c11_expect = o.a[0] ? (ok ? 1 : 0) : -1;
                if (!o.a[0]) {
#if defined(MC_TET)
                    if (l.size() != 3) c11_expect = 0;
#elif defined(MC_HEX)
                    if (l.size() != 4) c11_expect = 0;
#endif
                }
            } else {
                bool ok = closed_surface(bf, l);
                bool shape = true;
#if defined(MC_TET)
                shape = l.size() == 4; for (int hf : l) shape = shape && bf.hfhe[hf].size() == 3;
#elif defined(MC_HEX)
                shape = l.size() == 6; for (int hf : l) shape = shape && bf.hfhe[hf].size() == 4;
#endif
                for (int hf : l) if (!bf.cells_of_hf[hf].empty()) ok = ok && true;  // halffaces already in a cell: the check does not refuse them (documented)
                c11_expect = !shape ? 0 : (o.a[0] ? (ok ? 1 : 0) : -1);
#if defined(MC_HEX)
                if (c11_expect == 1) c11_expect = 2;
#endif
            }
        }
        g_phase = "exec";
        Viols dv;
        OpResult opres = exec_op(s, o, c03 ? &dv : nullptr);
        s.label_new(c03 ? &dv : nullptr);
        g_phase = "post-check";
        if (special_op) {
#if defined(MC_TET)
            if (o.k == COLLAPSE) {
                // collapse_edge swaps halfedge/halfface/cell property slots between old and rebuilt entities: re-issue all
                // non-vertex labels and compare in vertex-label space only
                for (size_t i = 0; i < s.m.n_edges(); ++i) s.el[EdgeHandle((int)i)] = -1;
                for (size_t i = 0; i < s.m.n_halfedges(); ++i) s.hel[HalfEdgeHandle((int)i)] = -1;
                for (size_t i = 0; i < s.m.n_faces(); ++i) s.fl[FaceHandle((int)i)] = -1;
                for (size_t i = 0; i < s.m.n_halffaces(); ++i) s.hfl[HalfFaceHandle((int)i)] = -1;
                for (size_t i = 0; i < s.m.n_cells(); ++i) s.cl[CellHandle((int)i)] = -1;
                s.label_new();
            }
            Bf bf1(s.m);
            if (bf1.malformed) { VIOL(vs, "c15:malformed-after:" + std::string(OPNAMES[o.k]), o.str()); return; }
            auto post_cells = oriented_cells(s, bf1);
            std::set<std::vector<int>> want;
            if (o.k == ADD_CELL_V) {
                want = c15_pre_cells;
                if (opres.ret >= 0) { std::vector<int> t; for (int i = 1; i <= 4; ++i) t.push_back(lo.a.empty() ? -1 : 0); t.clear(); for (int i = 1; i <= 4; ++i) t.push_back(s.vl[VertexHandle(o.a[i])]); want.insert(canon_oriented(t)); }
                st.outcomes["c15-add_cell_v"].insert(opres.ret >= 0 ? "accepted" : "rejected");
            } else {
                for (auto t : c15_pre_cells) {
                    bool ha = std::count(t.begin(), t.end(), c15_a), hb = std::count(t.begin(), t.end(), c15_b);
                    if (ha && hb) continue;
                    for (auto &x : t) if (x == c15_a) x = c15_b;
                    want.insert(canon_oriented(t));
                }
                int rl = (opres.ret >= 0 && (size_t)opres.ret < s.m.n_vertices() && !s.m.is_deleted(VertexHandle(opres.ret))) ? s.vl[VertexHandle(opres.ret)] : -99;
                if (rl != c15_b) VIOL(vs, "c15:collapse:returned-handle", o.str() << " returned handle " << opres.ret << " which designates vertex label " << rl << ", the target vertex has label " << c15_b);
                for (size_t v = 0; v < s.m.n_vertices(); ++v) if (!s.m.is_deleted(VertexHandle((int)v)) && s.vl[VertexHandle((int)v)] == c15_a) VIOL(vs, "c15:collapse:source-vertex-survives", o.str());
                st.hit("c15-collapses");
            }
            if (post_cells != want) {
                std::ostringstream d; d << o.str() << ": cells (oriented vertex-label tuples) are";
                for (auto &t : post_cells) d << " " << vstr(t);
                d << " expected";
                for (auto &t : want) d << " " << vstr(t);
                vs.push_back({std::string("c15:cells-after:") + OPNAMES[o.k], d.str()});
            }
            size_t ntets = 0; for (int c = 0; c < bf1.nc; ++c) if (!bf1.cdel[c]) ++ntets;
            if (ntets != post_cells.size()) VIOL(vs, std::string("c15:degenerate-or-duplicate-cell-after:") + OPNAMES[o.k], o.str() << ": " << ntets << " live cells but " << post_cells.size() << " distinct proper tetrahedra");
#elif defined(MC_HEX)
            if (o.k == ADD_CELL_V) {
                st.outcomes["c16-add_cell_v"].insert(opres.ret >= 0 ? "accepted" : "rejected");
                if (opres.ret < 0) VIOL(vs, "c16:add_cell(vertices):rejected", o.str() << " over an existing free closed surface was rejected");
                else {
                    if (s.m.n_faces() != c16_nf) VIOL(vs, "c16:add_cell(vertices):duplicated-faces", o.str() << " created " << s.m.n_faces() - c16_nf << " new faces although all six exist");
                    if (s.m.n_cells() != c16_nc + 1 || (size_t)opres.ret != c16_nc) VIOL(vs, "c16:add_cell(vertices):not-appended", o.str());
                    std::set<int> given, got;
                    for (int i = 1; i <= 8; ++i) given.insert(o.a[i]);
                    Bf bf1(s.m);
                    if (!bf1.malformed) { got = bf1.cv(opres.ret); if (got != given) VIOL(vs, "c16:add_cell(vertices):vertex-set", o.str()); }
                }
            }
#endif
            return;  // the ordinary reference transition does not model these composite operations; the state invariants do the rest
        }
        if (c03) for (auto &v : dv) vs.push_back({"c03:" + v.rule, v.detail});
        if (need_abs) {
            Viols ev;
            Abs post = extract(s, ev);
            const char *pfx = c02 ? "c02:" : c03 ? "c03:label-" : c12 ? "c12:" : c11 ? "c11:" : c04 ? "c04:" : c15 ? "c15:" : c16 ? "c16:" : "c17:";
            if (!ev.empty()) { vs.push_back({pfx + ev[0].rule, ev[0].detail}); return; }
            Abs exp = pre;
            Viols av;
            if ((c11 || c16) && c11_expect >= 0) {
                st.hit("c11-probes");
                if (st.outcomes["c11-verdicts"].size() < 16) st.outcomes["c11-verdicts"].insert(std::string(OPNAMES[o.k]) + ":" + std::to_string(c11_expect) + ":" + (opres.ret >= 0 ? "acc" : "rej"));
                bool accepted = opres.ret >= 0;
                if (c11_expect == 0 || c11_expect == 3 || (c11_expect == 2 && !accepted)) {
                    if (c11_expect == 0 && accepted) VIOL(vs, std::string("c11:accepted-invalid:") + OPNAMES[o.k], o.str() << " returned " << opres.ret << " although the arguments do not form a valid " << (o.k == ADD_FACE_HE ? "closed loop" : "closed surface"));
                    if (c11_expect == 3 && !std::count(c11_existing.begin(), c11_existing.end(), opres.ret)) VIOL(vs, "c11:dedup:wrong-edge", o.str() << " returned " << opres.ret << ", live edges between the vertices: " << vstr(c11_existing));
                    if (sys_key(s) != key_pre) VIOL(vs, std::string("c11:rejected-but-changed:") + OPNAMES[o.k], o.str() << " was rejected / deduplicated but the mesh state changed");
                    return;
                }
                if (!accepted) { VIOL(vs, std::string("c11:rejected-valid:") + OPNAMES[o.k], o.str() << " returned the invalid handle although the arguments are valid"); return; }
                size_t n = o.k == ADD_EDGE ? s.m.n_edges() : o.k == ADD_FACE_HE ? s.m.n_faces() : s.m.n_cells();
                if ((size_t)opres.ret + 1 != n) VIOL(vs, std::string("c11:not-appended:") + OPNAMES[o.k], o.str() << " returned " << opres.ret << " but the entity count is " << n);
                if (c11_expect == 2) {  // hex: stored list is a re-ordering of the given one
                    auto got = idxs(s.m.cell(CellHandle(opres.ret)).halffaces());
                    std::vector<int> l;
                    for (int i = 1; i < o.n; ++i) l.push_back(o.a[i]);
                    if (sorted(got) != sorted(l)) VIOL(vs, "c11:hex-reorder-changed-set", o.str() << " stored " << vstr(got));
                    // expected abstraction: take the stored order
                    auto it = post.Cs.find(pre.nextC());
                    if (it != post.Cs.end()) { lo.a.resize(1); for (int x : it->second.hfs) lo.a.push_back(x); }
                }
            }
#if defined(MC_HEX)
            // hex kernel: a topology-checked add_cell may store a re-ordering of the given list (the order itself is C16's business)
            if (o.k == ADD_CELL_HF && o.a[0] && !((c11 || c16) && c11_expect >= 0)) {
                auto it = post.Cs.find(pre.nextC());
                if (it != post.Cs.end() && !it->second.del) {
                    std::vector<int> given(lo.a.begin() + 1, lo.a.end());
                    if (sorted(given) == sorted(it->second.hfs)) { lo.a.resize(1); for (int x : it->second.hfs) lo.a.push_back(x); }
                }
            }
#endif
            abs_apply(exp, lo, &post, av);
            for (auto &v : av) vs.push_back(v);
            abs_compare(exp, post, (std::string(pfx) + "iso:").c_str(), vs);
            st.hit("iso-compare");
            if (c04 && o.k == STATUS_GC && vs.empty()) check_c04(s, o, lo, pre, exp, post, c04_vl, c04_hel, c04_hfl, c04_cl, seed, cfg, pre_hist, vs, st);
            if (c02 || c12) { Viols cv; check_counts(s, exp, cv); for (auto &v : cv) vs.push_back({std::string(c02 ? "c02:" : "c12:") + v.rule, v.detail}); st.hit("count-check"); }
        }
        if (c12 && vs.empty()) {
            Viols pv; check_c03_state(s, pv);
            for (auto &v : pv) vs.push_back({"c12:" + v.rule, v.detail});
            if (!is_bu_toggle(o)) { g_phase = "twin-exec"; exec_op(*twin, o); twin->label_new(); g_phase = "post-check"; }
            std::string a = handle_defs(s.m), b = handle_defs(twin->m);
            if (a != b) VIOL(vs, "c12:twin:definitions", "with incidences " << s.m.has_vertex_bottom_up_incidences() << s.m.has_edge_bottom_up_incidences() << s.m.has_face_bottom_up_incidences()
                                                                             << " the mesh is " << a << " but with all incidences enabled it is " << b);
            else {
                SlotView x = slot_view(s), y = slot_view(*twin);
                if (x.v != y.v || x.e != y.e || x.he != y.he || x.f != y.f || x.hf != y.hf || x.c != y.c) VIOL(vs, "c12:twin:properties", "property values differ from the all-enabled twin");
            }
            st.hit("twin-compare");
            if (vs.empty() && is_bu_toggle(o) && o.a[0]) {
                // re-enabled: the recomputed incidence arrays equal the ones of the never-disabled twin (as multisets per entry)
                const TopologyKernel &ts = s.m, &tt = twin->m;
                auto ms = [](auto v) { std::sort(v.begin(), v.end()); return v; };
                if (o.k == VBU) { for (size_t i = 0; i < ts.outgoing_hes_per_vertex_.size(); ++i) if (!ts.vertex_deleted_[VertexHandle((int)i)] && ms(ts.outgoing_hes_per_vertex_[VertexHandle((int)i)]) != ms(tt.outgoing_hes_per_vertex_[VertexHandle((int)i)])) VIOL(vs, "c12:reenable:vertex", "outgoing halfedges of vertex " << i << " differ from the never-disabled twin"); }
                if (o.k == EBU) { for (size_t i = 0; i < ts.incident_hfs_per_he_.size(); ++i) if (!ts.edge_deleted_[EdgeHandle((int)i / 2)] && ms(ts.incident_hfs_per_he_[HalfEdgeHandle((int)i)]) != ms(tt.incident_hfs_per_he_[HalfEdgeHandle((int)i)])) VIOL(vs, "c12:reenable:edge", "halffaces of halfedge " << i << " differ from the never-disabled twin"); }
                if (o.k == FBU) { for (size_t i = 0; i < ts.incident_cell_per_hf_.size(); ++i) if (!ts.face_deleted_[FaceHandle((int)i / 2)] && ts.incident_cell_per_hf_[HalfFaceHandle((int)i)] != tt.incident_cell_per_hf_[HalfFaceHandle((int)i)]) VIOL(vs, "c12:reenable:face", "incident cell of halfface " << i << " differs from the never-disabled twin"); }
                st.hit("reenable-compare");
            }
        }
        if (c03 && vs.empty()) { check_c03_state(s, vs); st.hit("c03-state"); }
        if (c17 && is_swap && vs.empty()) check_swap(s, o, sv_pre, key_pre, vs, st);
    }

    // C04: after any of the collection entry points the mesh has no pending deletions, equals the logical mesh before
    // (already established by the label isomorphism with the reference), equals the mesh obtained by performing the
    // same deletions immediately, tracked handles follow their entities, properties stay attached.
    void check_c04(Sys &s, const Op &o, const LOp &lo, const Abs &pre, const Abs &exp, const Abs &post, const std::vector<int> &vl, const std::vector<int> &hel,
                   const std::vector<int> &hfl, const std::vector<int> &cl, const std::string &seed, const Config &cfg, const Hist &pre_hist, Viols &vs, Stats &st) {
        const Mesh &m = s.m;
        int mode = o.a[0];
        st.hit("c04-collections");
        st.outcomes["c04-modes"].insert(std::to_string(mode) + ":" + std::to_string(o.n - 1) + "marks");
        if (m.needs_garbage_collection()) VIOL(vs, "c04:still-needs-garbage-collection", o.str());
        if (m.n_vertices() != m.n_logical_vertices() || m.n_edges() != m.n_logical_edges() || m.n_faces() != m.n_logical_faces() || m.n_cells() != m.n_logical_cells()) VIOL(vs, "c04:physical-vs-logical-counts", o.str());
        { Viols cv; check_counts(s, exp, cv); for (auto &v : cv) vs.push_back({"c04:" + v.rule, v.detail}); }
        { Viols pv; check_c03_state(s, pv); for (auto &v : pv) vs.push_back({"c04:" + v.rule, v.detail}); }
        if (!vs.empty()) return;
        // tracked handles (modes 4, 5): the handle designates the entity with the same label, or is invalid iff that entity was removed
        if (mode >= 4) {
            auto chk = [&](const char *kind, auto &trk, const std::vector<int> &labels, auto cur_label, size_t n_now) {
                for (size_t i = 0; i < trk.size(); ++i) {
                    int old = (int)i - 1;  // slot 0 holds the invalid handle
                    int got = trk[i].idx();
                    if (old < 0) { if (got >= 0) VIOL(vs, std::string("c04:tracked-invalid-became-valid:") + kind, o.str()); continue; }
                    int label = labels[old];
                    int want = -1;
                    if (label >= 0) for (size_t h = 0; h < n_now; ++h) if (cur_label((int)h) == label) want = (int)h;
                    if (got != want) VIOL(vs, std::string("c04:tracked-handle:") + kind, o.str() << ": " << kind << " handle " << old << " (label id " << label << ") became " << got << ", expected " << want);
                }
            };
            chk("vertex", s.trk_v, vl, [&](int h) { return s.vl[VertexHandle(h)]; }, m.n_vertices());
            chk("halfedge", s.trk_he, hel, [&](int h) { return 2 * s.el[EdgeHandle(h / 2)] + (h & 1); }, m.n_halfedges());
            chk("halfface", s.trk_hf, hfl, [&](int h) { return 2 * s.fl[FaceHandle(h / 2)] + (h & 1); }, m.n_halffaces());
            chk("cell", s.trk_c, cl, [&](int h) { return s.cl[CellHandle(h)]; }, m.n_cells());
            st.hit("c04-tracked-handle-checks", (long)(s.trk_v.size() + s.trk_he.size() + s.trk_hf.size() + s.trk_c.size()));
        }
        if (!vs.empty()) return;
        // differential: a twin in which the same entities are deleted immediately (no deferral)
        if (mode <= 3) {
            g_phase = "c04-twin";
            Sys t(cfg);
            build_seed(t, seed);
            for (auto &po : pre_hist) { exec_op(t, po); t.label_new(); }
            t.m.enable_deferred_deletion(false);
            auto find = [&](int kind, int label) -> int {
                size_t n = kind == 0 ? t.m.n_vertices() : kind == 1 ? t.m.n_edges() : kind == 2 ? t.m.n_faces() : t.m.n_cells();
                for (size_t i = 0; i < n; ++i) { int l = kind == 0 ? t.vl[VertexHandle((int)i)] : kind == 1 ? t.el[EdgeHandle((int)i)] : kind == 2 ? t.fl[FaceHandle((int)i)] : t.cl[CellHandle((int)i)]; if (l == label) return (int)i; }
                return -1;
            };
            for (size_t i = 1; i + 1 < lo.a.size(); i += 2) {
                int kind = lo.a[i], h = find(kind, lo.a[i + 1]);
                if (h < 0) continue;
                if (kind == 0) t.m.delete_vertex(VertexHandle(h)); else if (kind == 1) t.m.delete_edge(EdgeHandle(h)); else if (kind == 2) t.m.delete_face(FaceHandle(h)); else t.m.delete_cell(CellHandle(h));
            }
            if (mode != 3) {
                Viols ev;
                Abs ta = extract(t, ev);
                Abs pa = post;
                ta.deferred = pa.deferred; ta.vbu = pa.vbu; ta.ebu = pa.ebu; ta.fbu = pa.fbu;
                if (!ev.empty()) VIOL(vs, "c04:twin:" + ev[0].rule, ev[0].detail);
                else abs_compare(pa, ta, "c04:immediate-twin:", vs);
                st.hit("c04-immediate-twin-compare");
            }
        }
        g_phase = "post-check";
    }

    void check_swap(Sys &s, const Op &o, const SlotView &pre, const std::string &key_pre, Viols &vs, Stats &st) {
        int a = o.a[0], b = o.a[1];
        SlotView exp = pre;
        auto sw = [](std::vector<std::string> &v, int x, int y) { std::swap(v[x], v[y]); };
        if (o.k == SWAP_V) sw(exp.v, a, b);
        if (o.k == SWAP_E) { sw(exp.e, a, b); sw(exp.he, 2 * a, 2 * b); sw(exp.he, 2 * a + 1, 2 * b + 1); }
        if (o.k == SWAP_F) { sw(exp.f, a, b); sw(exp.hf, 2 * a, 2 * b); sw(exp.hf, 2 * a + 1, 2 * b + 1); }
        if (o.k == SWAP_C) sw(exp.c, a, b);
        SlotView got = slot_view(s);
        auto cmp = [&](const char *k, const std::vector<std::string> &g, const std::vector<std::string> &e) {
            if (g != e) VIOL(vs, std::string("c17:slots:") + k, OPNAMES[o.k] << "(" << a << "," << b << "): " << k << " slots are " << vstr(g) << " expected " << vstr(e));
        };
        cmp("vertex", got.v, exp.v); cmp("edge", got.e, exp.e); cmp("halfedge", got.he, exp.he);
        cmp("face", got.f, exp.f); cmp("halfface", got.hf, exp.hf); cmp("cell", got.c, exp.c);
        st.hit("swap-slot-check");
        if (!vs.empty()) return;
        if (a == b && sys_key(s) != key_pre) VIOL(vs, "c17:self-swap", "swapping a handle with itself changed the state");
        // incidence answers of the relabelled mesh (all six kinds) against brute force
        Bf bf(s.m);
        Viols cv;
        check_c01(s, bf, cv);
        for (auto &v : cv) vs.push_back({"c17:incidence:" + v.rule, v.detail});
        if (!vs.empty()) return;
        // involution: the same swap again restores the exact original state (on a scratch replay of the same op)
        g_phase = "swap-twice";
        exec_op(s, o);
        std::string k2 = sys_key(s);
        if (k2 != key_pre) VIOL(vs, "c17:involution", "applying " << o.str() << " twice does not restore the original state");
        exec_op(s, o);  // back to the swapped state for the search to continue from
        st.hit("swap-involution-check");
    }

#include "oracle_c13.inc"

    void state_checks(const Sys &s, Viols &vs, Stats &st) {
        if (c01) {
            Bf bf(s.m);
            check_c01(s, bf, vs, &st.outcomes);
            st.hit("c01-state");
        }
        if (c03) { check_c03_state(s, vs); }
        if (c05 || c08 || c09 || c10) {
            Bf bf(s.m);
            if (bf.malformed) { VIOL(vs, "malformed-state", "a live entity refers to a deleted or out-of-range sub-entity"); return; }
            if (c05) { g_phase = "c05"; check_c05(s, bf, vs, st); }
            if (c08) { g_phase = "c08"; check_c08(s, bf, vs, st); }
            if (c09) { g_phase = "c09"; check_c09(s, bf, vs, st); }
            if (c10) { g_phase = "c10"; check_c10(s, bf, vs, st); }
        }
        if (c13) { g_phase = "c13"; check_c13(s, vs, st); }
        if (c15 || c16) { Bf bf(s.m); if (!bf.malformed) { g_phase = "c15/c16"; check_special_kernel(s, bf, vs, st, c15, c16); } }
        if (c12) {
            Bf bf(s.m);
            Viols cv;
            check_c01(s, bf, cv);  // queries are only issued for enabled kinds
            for (auto &v : cv) vs.push_back({"c12:incidence:" + v.rule, v.detail});
            g_phase = "disabled-circulators";
            if (!bf.malformed) check_disabled_circulators(s, bf, vs);
            st.hit("c12-state");
        }
    }
};

}  // namespace mc
