// Seed catalogue: programmatically built start states (DESIGN.md section 3).
#pragma once
#include "core.hh"

namespace mc {

struct Builder {
    Sys &s;
    Mesh &m;
    explicit Builder(Sys &s_) : s(s_), m(s_.m) {}
    int V() { return m.add_vertex().idx(); }
    void Vn(int n) { for (int i = 0; i < n; ++i) V(); }
    int E(int a, int b, bool dup = false) { return m.add_edge(VertexHandle(a), VertexHandle(b), dup).idx(); }
    // halfface with the given cyclic vertex sequence: reuse an existing live face (either side), else create
    HalfFaceHandle HF(const std::vector<int> &vs) {
        size_t n = vs.size();
        for (size_t f = 0; f < m.n_faces(); ++f) {
            FaceHandle fh((int)f);
            if (m.is_deleted(fh)) continue;
            for (int side = 0; side < 2; ++side) {
                auto hf = m.halfface(fh.halfface_handle(side));
                if (hf.halfedges().size() != n) continue;
                std::vector<int> cyc;
                for (auto he : hf.halfedges()) cyc.push_back(m.from_vertex_handle(he).idx());
                for (size_t r = 0; r < n; ++r) {
                    bool ok = true;
                    for (size_t i = 0; i < n && ok; ++i) ok = cyc[(i + r) % n] == vs[i];
                    if (ok) return fh.halfface_handle(side);
                }
            }
        }
        std::vector<VertexHandle> v;
        for (int x : vs) v.push_back(VertexHandle(x));
        return m.add_face(v).halfface_handle(0);
    }
    int find_edge(int a, int c) {
        for (size_t e = 0; e < m.n_edges(); ++e) {
            EdgeHandle eh((int)e);
            if (m.is_deleted(eh)) continue;
            int f = m.edge(eh).from_vertex().idx(), t = m.edge(eh).to_vertex().idx();
            if ((f == a && t == c) || (f == c && t == a)) return (int)e;
        }
        return -1;
    }
    int C(const std::vector<HalfFaceHandle> &hfs) { return m.add_cell(hfs, false).idx(); }
    int tet(int a, int b, int c, int d) {
#if defined(MC_HEX)
        return -1;
#else
        return C({HF({a, b, c}), HF({a, c, d}), HF({a, d, b}), HF({b, d, c})});
#endif
    }
    int hex(const std::array<int, 8> &v) {
#if defined(MC_TET)
        return -1;
#else
        return C({HF({v[3], v[2], v[1], v[0]}), HF({v[7], v[6], v[5], v[4]}), HF({v[1], v[2], v[6], v[7]}),
                  HF({v[4], v[5], v[3], v[0]}), HF({v[1], v[7], v[4], v[0]}), HF({v[2], v[3], v[5], v[6]})});
#endif
    }
};

struct SeedInfo { const char *name; const char *desc; bool poly, tet, hex; };
static const SeedInfo SEEDS[] = {
    {"S0", "empty mesh", 1, 1, 1},
    {"S1", "3 isolated vertices", 1, 1, 1},
    {"S2", "path + duplicate edge + self-loop edge", 1, 1, 1},
    {"S3", "one triangle", 1, 1, 0},
    {"S4a", "two triangles sharing an edge, consistent orientation", 1, 1, 0},
    {"S4b", "two triangles sharing an edge, opposite orientation", 1, 1, 0},
    {"S5", "2-gon face + triangle on parallel edges", 1, 0, 0},
    {"S6", "one tet", 1, 1, 0},
    {"S7", "two tets sharing a face", 1, 1, 0},
    {"S8", "open fan of 3 tets around an edge", 1, 1, 0},
    {"S9a", "closed fan of 3 tets around an interior edge", 1, 1, 0},
    {"S9b", "closed fan of 4 tets around an interior edge", 1, 1, 0},
    {"S10a", "two tets touching in one vertex", 1, 1, 0},
    {"S10b", "two tets touching in one edge", 1, 1, 0},
    {"S11", "tet + dangling face + dangling edge + isolated vertex", 1, 1, 0},
    {"S12", "pyramid (quad base)", 1, 0, 0},
    {"S13", "triangular prism", 1, 0, 0},
    {"S14", "one hex", 1, 0, 1},
    {"S15", "two hexes sharing a face", 1, 0, 1},
    {"S16", "2x2x1 hex block", 1, 0, 1},
    {"S17", "self-adjacent cell (both halffaces of one face) + a tet on the same face's edge", 1, 0, 0},
    {"S18a", "two tets, first vertex/edge/face/cell region deleted (deferred leaves them pending)", 1, 1, 0},
    {"S18b", "fan of 3 tets, middle cell and a middle face deleted", 1, 1, 0},
    {"S18c", "two tets + extras, last vertex, last edge, last face, last cell deleted", 1, 1, 0},
    {"S19", "three triangles on one common edge (non-manifold edge) + one tet on one of them", 1, 1, 0},
    {"S20", "two tets on the SAME halfface (non-manifold, built without topology check) + a regular neighbour (C17 only)", 1, 1, 0},
};
static const int N_SEEDS = sizeof(SEEDS) / sizeof(SEEDS[0]);

inline bool seed_applicable(const SeedInfo &si) {
#if defined(MC_TET)
    return si.tet;
#elif defined(MC_HEX)
    return si.hex;
#else
    return si.poly;
#endif
}

// Build the seed into s (already configured).  Returns false for an unknown name.
inline bool build_seed(Sys &s, const std::string &name) {
    Builder b(s);
    Mesh &m = s.m;
    if (name == "S0") {
    } else if (name == "S1") {
        b.Vn(3);
    } else if (name == "S2") {
        b.Vn(4);
        b.E(0, 1); b.E(1, 2); b.E(2, 3); b.E(1, 2, true); b.E(3, 3, true);
    } else if (name == "S3") {
        b.Vn(3); b.HF({0, 1, 2});
    } else if (name == "S4a") {
        b.Vn(4); b.HF({0, 1, 2}); b.HF({1, 0, 3});
    } else if (name == "S4b") {
        b.Vn(4); b.HF({0, 1, 2});
        // second triangle runs 0->1 as well: built explicitly from halfedges
        int e03 = b.E(1, 3), e30 = b.E(3, 0);
        m.add_face(std::vector<HalfEdgeHandle>{HalfEdgeHandle(0), HalfEdgeHandle(2 * e03), HalfEdgeHandle(2 * e30)}, false);
    } else if (name == "S5") {
        b.Vn(3);
        int e0 = b.E(0, 1), e1 = b.E(0, 1, true);
        m.add_face(std::vector<HalfEdgeHandle>{HalfEdgeHandle(2 * e0), HalfEdgeHandle(2 * e1 + 1)}, false);  // 2-gon
        int e2 = b.E(1, 2), e3 = b.E(2, 0);
        m.add_face(std::vector<HalfEdgeHandle>{HalfEdgeHandle(2 * e1), HalfEdgeHandle(2 * e2), HalfEdgeHandle(2 * e3)}, false);
    } else if (name == "S6") {
        b.Vn(4); b.tet(0, 1, 2, 3);
    } else if (name == "S7") {
        b.Vn(5); b.tet(0, 1, 2, 3); b.tet(0, 2, 1, 4);
    } else if (name == "S8") {
        // edge 0-1 ; ring vertices 2,3,4,5 ; tets (0,1,2,3) (0,1,3,4) (0,1,4,5)
        b.Vn(6); b.tet(0, 1, 2, 3); b.tet(0, 1, 3, 4); b.tet(0, 1, 4, 5);
    } else if (name == "S9a") {
        b.Vn(5); b.tet(0, 1, 2, 3); b.tet(0, 1, 3, 4); b.tet(0, 1, 4, 2);
    } else if (name == "S9b") {
        b.Vn(6); b.tet(0, 1, 2, 3); b.tet(0, 1, 4, 5); b.tet(0, 1, 3, 4); b.tet(0, 1, 5, 2);  // attached out of order
    } else if (name == "S10a") {
        b.Vn(7); b.tet(0, 1, 2, 3); b.tet(0, 4, 5, 6);
    } else if (name == "S10b") {
        b.Vn(6); b.tet(0, 1, 2, 3); b.tet(0, 1, 4, 5);
    } else if (name == "S11") {
        b.Vn(7); b.tet(0, 1, 2, 3); b.HF({1, 2, 4}); b.E(3, 5); /* 6 isolated */
    } else if (name == "S12") {
        b.Vn(5);
        b.C({b.HF({3, 2, 1, 0}), b.HF({0, 1, 4}), b.HF({1, 2, 4}), b.HF({2, 3, 4}), b.HF({3, 0, 4})});
    } else if (name == "S13") {
        b.Vn(6);
        b.C({b.HF({2, 1, 0}), b.HF({3, 4, 5}), b.HF({0, 1, 4, 3}), b.HF({1, 2, 5, 4}), b.HF({2, 0, 3, 5})});
    } else if (name == "S14") {
        b.Vn(8); b.hex({0, 1, 2, 3, 4, 7, 6, 5});
    } else if (name == "S15") {
        b.Vn(12); b.hex({0, 1, 2, 3, 4, 7, 6, 5});
        // second hex stacked on the first one's XB face (5,6,7,4), entered through the opposite halfface and
        // given in a rotated vertex order; new vertices 8..11 sit above 4..7
        b.hex({5, 6, 7, 4, 9, 8, 11, 10});
    } else if (name == "S16") {
        // 3x3x2 lattice, vertex (x,y,z) = x + 3y + 9z
        b.Vn(18);
        auto id = [](int x, int y, int z) { return x + 3 * y + 9 * z; };
        for (int y = 0; y < 2; ++y)
            for (int x = 0; x < 2; ++x)
                b.hex({id(x, y, 0), id(x + 1, y, 0), id(x + 1, y + 1, 0), id(x, y + 1, 0), id(x, y, 1), id(x, y + 1, 1),
                       id(x + 1, y + 1, 1), id(x + 1, y, 1)});
    } else if (name == "S17") {
        b.Vn(4);
        auto h = b.HF({0, 1, 2});
        b.C({h, h.opposite_handle()});
        b.HF({1, 0, 3});
    } else if (name == "S18a") {
        b.Vn(6); b.tet(0, 1, 2, 3); b.tet(0, 2, 1, 4); b.E(4, 5);
        s.label_new();
        m.delete_cell(CellHandle(0)); m.delete_vertex(VertexHandle(5));
        m.delete_edge(EdgeHandle(b.find_edge(0, 3)));
    } else if (name == "S18b") {
        b.Vn(6); b.tet(0, 1, 2, 3); b.tet(0, 1, 3, 4); b.tet(0, 1, 4, 5);
        s.label_new();
        m.delete_cell(CellHandle(1));
        m.delete_face(b.HF({0, 1, 4}).face_handle());
    } else if (name == "S18c") {
        b.Vn(7); b.tet(0, 1, 2, 3); b.tet(0, 2, 1, 4); b.HF({2, 4, 5}); b.E(5, 6);
        s.label_new();
        m.delete_cell(CellHandle((int)m.n_cells() - 1));
        m.delete_face(FaceHandle((int)m.n_faces() - 1));
        m.delete_edge(EdgeHandle((int)m.n_edges() - 1));
        m.delete_vertex(VertexHandle((int)m.n_vertices() - 1));
    } else if (name == "S19") {
        b.Vn(6); b.HF({0, 1, 2}); b.HF({0, 1, 3}); b.HF({1, 0, 4}); b.tet(0, 1, 2, 5);
    } else if (name == "S20") {
        b.Vn(6); b.tet(0, 1, 2, 3); b.tet(0, 1, 2, 4); b.tet(0, 2, 1, 5);
    } else
        return false;
    s.label_new();
    return true;
}

}  // namespace mc
