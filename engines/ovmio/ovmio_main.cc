// Engine E3 (ovmio): exhaustive encodings (C06), mutations (C07) and faults (C18) for both native file formats.
// Cases are enumerated deterministically; every case is identified by a string that --replay re-executes alone.
#include "ovmio.hh"
#include "ref_codec.hh"

#include <chrono>
#include <csignal>
#include <cstdio>
#include <fstream>
#include <functional>
#include <set>
#include <sstream>
#include <sys/mman.h>
#include <sys/wait.h>
#include <unistd.h>

using namespace io;

// ------------------------------------------------------------------------------------------------ corpus
struct MB {  // mesh builder in description space
    MeshD m;
    std::map<std::pair<int, int>, int> emap;
    int V(double x, double y, double z) { m.pos.push_back({x, y, z}); return (int)m.pos.size() - 1; }
    void Vn(int n) { for (int i = 0; i < n; ++i) { int k = (int)m.pos.size(); V(k * 0.5, -k, k % 3 + 0.25); } }
    int E(int a, int b) { m.edges.push_back({a, b}); int e = (int)m.edges.size() - 1; if (!emap.count({a, b}) && !emap.count({b, a})) emap[{a, b}] = e; return e; }
    int HE(int a, int b) { if (emap.count({a, b})) return 2 * emap[{a, b}]; if (emap.count({b, a})) return 2 * emap[{b, a}] + 1; return 2 * E(a, b); }
    int HF(const std::vector<int> &vs) {  // halfface with this vertex cycle (reuse either side of an existing face)
        size_t n = vs.size();
        for (size_t f = 0; f < m.faces.size(); ++f) for (int side = 0; side < 2; ++side) {
            std::vector<int> cyc;
            auto hes = m.faces[f];
            if (side) { std::reverse(hes.begin(), hes.end()); for (auto &h : hes) h ^= 1; }
            for (int h : hes) cyc.push_back(m.edges[h / 2][h & 1]);
            if (cyc.size() != n) continue;
            for (size_t r = 0; r < n; ++r) { bool ok = true; for (size_t i = 0; i < n && ok; ++i) ok = cyc[(i + r) % n] == vs[i]; if (ok) return 2 * (int)f + side; }
        }
        std::vector<int> hes;
        for (size_t i = 0; i < n; ++i) hes.push_back(HE(vs[i], vs[(i + 1) % n]));
        m.faces.push_back(hes);
        return 2 * ((int)m.faces.size() - 1);
    }
    void C(const std::vector<int> &hfs) { m.cells.push_back(hfs); }
    void tet(int a, int b, int c, int d) { C({HF({a, b, c}), HF({a, c, d}), HF({a, d, b}), HF({b, d, c})}); }
    void hex(const std::array<int, 8> &v) { C({HF({v[3], v[2], v[1], v[0]}), HF({v[7], v[6], v[5], v[4]}), HF({v[1], v[2], v[6], v[7]}), HF({v[4], v[5], v[3], v[0]}), HF({v[1], v[7], v[4], v[0]}), HF({v[2], v[3], v[5], v[6]})}); }
};

static int detect_topo(const MeshD &m) {
    if (m.cells.empty()) return 0;
    bool tet = true, hex = true;
    for (auto &f : m.faces) { if (f.size() != 3) tet = false; if (f.size() != 4) hex = false; }
    for (auto &c : m.cells) { if (c.size() != 4) tet = false; if (c.size() != 6) hex = false; }
    return tet ? 1 : hex ? 2 : 0;
}

struct CorpusEntry { std::string name; MeshD mesh; bool big = false; };

static void add_props(MeshD &m, const std::vector<std::string> &types, const std::vector<int> &entities, int salt) {
    int k = 0;
    for (auto &t : types) {
        auto alpha = lib_value_alphabet(t);
        if (alpha.empty()) continue;
        for (int e : entities) {
            PropD p;
            p.entity = e; p.type = t; p.name = "p_" + t + "_" + std::to_string(e) + (k % 3 == 1 ? " with space" : "");
            p.def = alpha[(k + salt) % alpha.size()];
            size_t n = n_of_entity(m, e);
            for (size_t i = 0; i < n; ++i) p.vals.push_back(alpha[(i + k + salt) % alpha.size()]);
            m.props.push_back(p);
            ++k;
        }
    }
    std::sort(m.props.begin(), m.props.end(), [](const PropD &x, const PropD &y) { return std::tie(x.entity, x.name, x.type) < std::tie(y.entity, y.name, y.type); });
}

static std::vector<CorpusEntry> make_corpus(bool with_big) {
    std::vector<CorpusEntry> c;
    auto fin = [&](const std::string &n, MB &b, bool big = false) { b.m.topo = detect_topo(b.m); c.push_back({n, b.m, big}); };
    { MB b; fin("empty", b); }
    { MB b; b.Vn(3); fin("3verts", b); }
    { MB b; b.Vn(4); b.E(0, 1); b.E(1, 2); b.E(2, 3); b.E(1, 2); b.E(3, 3); fin("path+dup+loop", b); }
    { MB b; b.Vn(3); b.HF({0, 1, 2}); fin("triangle", b); }
    { MB b; b.Vn(5); b.HF({0, 1, 2}); b.HF({1, 0, 3}); b.HF({0, 1, 4}); fin("3tri-on-edge", b); }
    { MB b; b.Vn(3); int e0 = b.E(0, 1), e1 = b.E(0, 1); b.m.faces.push_back({2 * e0, 2 * e1 + 1}); b.m.faces.push_back({2 * e1, b.HE(1, 2), b.HE(2, 0)}); fin("2gon+tri", b); }
    { MB b; b.Vn(4); b.tet(0, 1, 2, 3); fin("tet", b); }
    { MB b; b.Vn(5); b.tet(0, 1, 2, 3); b.tet(0, 2, 1, 4); fin("2tets", b); }
    { MB b; b.Vn(6); b.tet(0, 1, 2, 3); b.tet(0, 1, 3, 4); b.tet(0, 1, 4, 5); b.HF({2, 5, 3}); b.E(2, 4); fin("fan3+extras", b); }
    { MB b; b.Vn(5); b.C({b.HF({3, 2, 1, 0}), b.HF({0, 1, 4}), b.HF({1, 2, 4}), b.HF({2, 3, 4}), b.HF({3, 0, 4})}); fin("pyramid", b); }
    { MB b; b.Vn(6); b.C({b.HF({2, 1, 0}), b.HF({3, 4, 5}), b.HF({0, 1, 4, 3}), b.HF({1, 2, 5, 4}), b.HF({2, 0, 3, 5})}); b.tet(0, 1, 2, 0 + 3) ; fin("prism+tet", b); }
    { MB b; b.Vn(8); b.hex({0, 1, 2, 3, 4, 7, 6, 5}); fin("hex", b); }
    { MB b; b.Vn(12); b.hex({0, 1, 2, 3, 4, 7, 6, 5}); b.hex({5, 6, 7, 4, 9, 8, 11, 10}); fin("2hexes", b); }
    { MB b; b.Vn(4); int h = b.HF({0, 1, 2}); b.C({h, h ^ 1}); b.HF({1, 0, 3}); fin("pillow-cell", b); }
    { MB b; b.Vn(8); b.tet(0, 1, 2, 3); b.HF({4, 5, 6, 7}); fin("tet+free-quad", b); }
    { MB b; b.Vn(11); b.hex({0, 1, 2, 3, 4, 7, 6, 5}); b.HF({8, 9, 10}); fin("hex+free-triangle", b); }
    { MB b; b.Vn(7); b.tet(0, 1, 2, 3); b.HF({4, 5, 6}); b.E(0, 4); fin("tet+free-triangle+edge", b); }
    if (with_big) {
        // index-width boundaries: vertices 254..257 (edge chunk handle width), halfedges around 255/256 and 65535/65536
        for (int nv : {254, 255, 256, 257}) { MB b; b.Vn(nv); for (int i = 0; i + 1 < nv; i += 37) b.E(i, nv - 1 - i / 2); fin("verts" + std::to_string(nv), b, true); }
        for (int ne : {127, 128, 129}) { MB b; b.Vn(ne + 2); for (int i = 0; i < ne - 3; ++i) b.E(i, i + 1); b.HF({ne - 1, ne, ne + 1}); fin("halfedges" + std::to_string(2 * ne), b, true); }  // face uses the last halfedges
        for (int nf : {127, 128, 129}) { MB b; b.Vn(5); for (int i = 0; i < nf - 4; ++i) { b.m.faces.push_back({b.HE(0, 1), b.HE(1, 4), b.HE(4, 0)}); } b.tet(0, 1, 2, 3); fin("halffaces" + std::to_string(2 * (int)b.m.faces.size()), b, true); }
        for (int nv : {65535, 65536, 65537}) { MB b; b.Vn(nv); b.E(nv - 1, nv - 2); b.E(0, nv - 1); fin("verts" + std::to_string(nv), b, true); }
        // valence boundaries: one polygon with n edges (face valence n), cells with n halffaces (pillow pairs [+ a pyramid for odd n])
        for (int n : {254, 255, 256, 257, 65535, 65536, 65537}) { MB b; b.Vn(n); std::vector<int> cyc; for (int i = 0; i < n; ++i) cyc.push_back(i); b.HF(cyc); b.HF({0, 2, 1}); fin("facevalence" + std::to_string(n), b, true); }
        for (int n : {254, 255, 256, 257}) {
            MB b; b.Vn(8 + 3 * (n / 2 + 1));
            std::vector<int> hfs;
            if (n % 2) { for (int h : {b.HF({3, 2, 1, 0}), b.HF({0, 1, 4}), b.HF({1, 2, 4}), b.HF({2, 3, 4}), b.HF({3, 0, 4})}) hfs.push_back(h); }
            for (int k = 0; (int)hfs.size() < n; ++k) { int v = 8 + 3 * k; int h = b.HF({v, v + 1, v + 2}); hfs.push_back(h); hfs.push_back(h ^ 1); }
            b.C(hfs); b.tet(0, 1, 2, 5);
            fin("cellvalence" + std::to_string(n), b, true);
        }
        for (int ne : {32767, 32768, 32769}) { MB b; b.Vn(4); for (int i = 0; i < ne - 3; ++i) b.E(i % 3, 3); b.HF({0, 1, 2}); fin("halfedges" + std::to_string(2 * (int)b.m.edges.size()), b, true); }
    }
    return c;
}

static const std::vector<std::string> ALL_TYPES = {"b", "u8", "u16", "u32", "u64", "i8", "i16", "i32", "i64", "f", "d", "s32", "vh", "eh", "heh", "fh", "hfh", "ch",
                                                   "2d", "3d", "4d", "2f", "3f", "4f", "2u32", "3u32", "4u32", "2i32", "3i32", "4i32"};
// types that also have an OVM-ASCII typeName (int uint short long ulong uchar bool float double string vecNf/d/i/ui)
static const std::vector<std::string> ASCII_TYPES = {"b", "u8", "u32", "u64", "i16", "i32", "i64", "f", "d", "s32", "2d", "3d", "4d", "2f", "3f", "4f", "2u32", "3u32", "4u32", "2i32", "3i32", "4i32"};

// ------------------------------------------------------------------------------------------------ comparison helpers
static std::string diff_mesh(const MeshD &a, const MeshD &b, bool cells_as_sets = false, bool props = true, bool positions_exact = true) {
    std::ostringstream o;
    if (a.pos.size() != b.pos.size()) o << "n_vertices " << a.pos.size() << " vs " << b.pos.size() << "; ";
    else if (positions_exact) for (size_t i = 0; i < a.pos.size(); ++i) if (std::memcmp(a.pos[i].data(), b.pos[i].data(), 24) != 0) { o << "position of vertex " << i << " differs bitwise; "; break; }
    if (a.edges != b.edges) o << "edges differ (" << a.edges.size() << " vs " << b.edges.size() << "); ";
    if (a.faces != b.faces) o << "faces differ (" << a.faces.size() << " vs " << b.faces.size() << "); ";
    if (cells_as_sets) {
        if (a.cells.size() != b.cells.size()) o << "cells differ; ";
        else for (size_t i = 0; i < a.cells.size(); ++i) { auto x = a.cells[i], y = b.cells[i]; std::sort(x.begin(), x.end()); std::sort(y.begin(), y.end()); if (x != y) { o << "cell " << i << " differs as a set; "; break; } }
    } else if (a.cells != b.cells) o << "cells differ (" << a.cells.size() << " vs " << b.cells.size() << "); ";
    if (props) {
        if (a.props.size() != b.props.size()) o << "number of persistent properties " << a.props.size() << " vs " << b.props.size() << "; ";
        else for (size_t i = 0; i < a.props.size(); ++i) if (!(a.props[i] == b.props[i])) {
            const PropD &x = a.props[i], &y = b.props[i];
            o << "property #" << i << " '" << x.name << "'/" << x.type << "/e" << x.entity << " vs '" << y.name << "'/" << y.type << "/e" << y.entity
              << (x.def != y.def ? " default differs" : "") << (x.vals != y.vals ? " values differ" : "") << "; ";
            break;
        }
    }
    return o.str();
}
static bool closed_loop(const MeshD &m, const std::vector<int> &f) {
    if (f.empty()) return false;
    for (size_t i = 0; i < f.size(); ++i) { int a = f[i], b = f[(i + 1) % f.size()]; if (m.edges[a / 2][1 - (a & 1)] != m.edges[b / 2][b & 1]) return false; }
    return true;
}
static bool passes_topology_check(const MeshD &m) {
    for (auto &f : m.faces) if (!closed_loop(m, f)) return false;
    for (auto &c : m.cells) {
        if (c.empty()) return false;
        std::map<int, int> cnt;
        for (int hf : c) { auto hes = m.faces[hf / 2]; if (hf & 1) { std::reverse(hes.begin(), hes.end()); for (auto &h : hes) h ^= 1; } for (int h : hes) cnt[h]++; }
        for (auto &kv : cnt) if (kv.second != 1 || !cnt.count(kv.first ^ 1)) return false;
    }
    return true;
}
static std::string hex_of(const std::string &s, size_t maxn = 4096) {
    static const char *d = "0123456789abcdef";
    std::string r;
    for (size_t i = 0; i < s.size() && i < maxn; ++i) { r += d[(unsigned char)s[i] >> 4]; r += d[s[i] & 15]; }
    return r;
}

// the text format cannot carry non-finite floating-point values (operator>> does not parse "nan"/"inf"): replace them
static void sanitize_for_ascii(MeshD &m) {
    for (auto &p : m.props) {
        int w = 0;
        if (p.type == "f" || (p.type.size() == 2 && p.type[1] == 'f')) w = 4;
        if (p.type == "d" || (p.type.size() == 2 && p.type[1] == 'd')) w = 8;
        if (!w) continue;
        auto fix = [&](Bytes &b) {
            for (size_t o = 0; o + w <= b.size(); o += w) {
                if (w == 4) { float f; std::memcpy(&f, &b[o], 4); if (!(f == f) || f - f != 0) { f = 1.5f; std::memcpy(&b[o], &f, 4); } }
                else { double f; std::memcpy(&f, &b[o], 8); if (!(f == f) || f - f != 0) { f = 2.5; std::memcpy(&b[o], &f, 8); } }
            }
        };
        fix(p.def);
        for (auto &v : p.vals) fix(v);
    }
}
// persistent properties are written in registry (address) order: compare texts with the property blocks sorted
static std::string normalise_ascii(const std::string &t) {
    std::vector<std::string> blocks;
    std::string head, cur;
    std::istringstream is(t);
    std::string line;
    bool in_props = false;
    while (std::getline(is, line)) {
        bool starts = false;
        for (const char *k : {"VProp ", "EProp ", "HEProp ", "FProp ", "HFProp ", "CProp ", "MProp "}) if (line.rfind(k, 0) == 0) starts = true;
        if (starts) { if (in_props) blocks.push_back(cur); cur.clear(); in_props = true; }
        (in_props ? cur : head) += line + "\n";
    }
    if (in_props) blocks.push_back(cur);
    std::sort(blocks.begin(), blocks.end());
    for (auto &b : blocks) head += b;
    return head;
}

// ------------------------------------------------------------------------------------------------ case runner with crash isolation
struct Viol { std::string rule, detail, casestr; };
struct Ctx {
    std::string prop;
    std::vector<Viol> viols;
    std::set<std::string> known;
    std::map<std::string, Viol> known_hits;
    long evaluations = 0;
    std::set<std::string> distinct;  // outcome classes (vacuity indicator): operator|outcome
    std::map<std::string, long> counts;
    std::vector<std::string> samples;
    double deadline = 0;
    std::chrono::steady_clock::time_point t0 = std::chrono::steady_clock::now();
    bool capped = false;
    bool out_of_time() { if (deadline > 0 && std::chrono::duration<double>(std::chrono::steady_clock::now() - t0).count() > deadline) capped = true; return capped; }
    void viol(const std::string &rule, const std::string &detail, const std::string &cs) {
        if (known.count(rule)) { if (!known_hits.count(rule)) known_hits[rule] = {rule, detail, cs}; return; }
        for (auto &v : viols) if (v.rule == rule) return;  // one example per rule
        viols.push_back({rule, detail, cs});
    }
};

// A case function runs in a forked child; it returns "" or "rule\x1fdetail" lines through the pipe, plus an outcome class.
struct CaseResult { std::vector<std::pair<std::string, std::string>> viols; std::string outcome; };
using CaseFn = std::function<CaseResult(size_t)>;

static volatile long *g_progress = nullptr;

static std::string classify_stderr(const std::string &err, int status) {
    auto has = [&](const char *s) { return err.find(s) != std::string::npos; };
    if (has("allocation-size-too-big") || has("out-of-memory") || has("requested allocation size")) return "alloc-refused";
    if (has("Assertion '")) { size_t p = err.find("Assertion '"); return "crash:glibcxx-assert:" + err.substr(p + 11, std::min<size_t>(40, err.find('\'', p + 11) - p - 11)); }
    if (has("AddressSanitizer: ")) { size_t p = err.find("AddressSanitizer: ") + 18; size_t q = err.find_first_of(" \n", p); return "crash:asan:" + err.substr(p, q - p); }
    if (has("runtime error:")) return "crash:ubsan";
    if (has("terminate called")) return "crash:uncaught-exception";
    if (WIFSIGNALED(status)) return "crash:signal" + std::to_string(WTERMSIG(status));
    return "crash:exit" + std::to_string(WIFEXITED(status) ? WEXITSTATUS(status) : -1);
}

// Runs cases [0,n) in forked workers; a dying worker pins the violation on the case it was executing and the run resumes after it.
static void run_cases(Ctx &ctx, size_t n, const CaseFn &fn, const std::function<std::string(size_t)> &describe, const std::string &crash_rule_prefix, int per_case_seconds = 3) {
    if (!g_progress) g_progress = (volatile long *)mmap(nullptr, 4096, PROT_READ | PROT_WRITE, MAP_SHARED | MAP_ANONYMOUS, -1, 0);
    size_t start = 0;
    while (start < n && !ctx.out_of_time()) {
        int pfd[2];
        if (pipe(pfd) != 0) return;
        std::string errpath = "/tmp/ovmio_err_" + std::to_string(getpid());
        *g_progress = (long)start;
        pid_t pid = fork();
        if (pid == 0) {
            close(pfd[0]);
            FILE *ef = freopen(errpath.c_str(), "w", stderr);
            (void)ef;
            FILE *out = fdopen(pfd[1], "w");
            signal(SIGALRM, [](int) { _exit(98); });
            for (size_t i = start; i < n; ++i) {
                if ((i & 63) == 0 && ctx.out_of_time()) { fflush(out); _exit(97); }  // global deadline: stop, the parent reports the run as capped
                *g_progress = (long)i;
                alarm(per_case_seconds);
                CaseResult r = fn(i);
                alarm(0);
                fprintf(out, "C\x1f%zu\x1f%s\n", i, r.outcome.c_str());
                for (auto &v : r.viols) { std::string d = v.second; for (auto &ch : d) if (ch == '\n' || ch == '\x1f') ch = ' '; fprintf(out, "V\x1f%zu\x1f%s\x1f%s\n", i, v.first.c_str(), d.c_str()); }
                if ((i & 255) == 255) fflush(out);
            }
            fflush(out);
            _exit(0);
        }
        close(pfd[1]);
        FILE *in = fdopen(pfd[0], "r");
        char *line = nullptr;
        size_t cap = 0;
        size_t done_upto = start;
        while (getline(&line, &cap, in) > 0) {
            std::string l(line);
            if (!l.empty() && l.back() == '\n') l.pop_back();
            std::vector<std::string> f;
            size_t p = 0;
            while (true) { size_t q = l.find('\x1f', p); if (q == std::string::npos) { f.push_back(l.substr(p)); break; } f.push_back(l.substr(p, q - p)); p = q + 1; }
            if (f.size() >= 3 && f[0] == "C") { size_t i = std::stoul(f[1]); done_upto = i + 1; ctx.evaluations++; ctx.distinct.insert(f[2]); ctx.counts[f[2].substr(0, f[2].find('|'))]++; }
            if (f.size() >= 4 && f[0] == "V") { size_t i = std::stoul(f[1]); ctx.viol(f[2], f[3], describe(i)); }
        }
        free(line);
        fclose(in);
        int status = 0;
        waitpid(pid, &status, 0);
        if (WIFEXITED(status) && WEXITSTATUS(status) == 0) { start = n; break; }
        if (WIFEXITED(status) && WEXITSTATUS(status) == 97) { ctx.capped = true; break; }
        size_t bad = (size_t)*g_progress;
        std::string err;
        { std::ifstream f(errpath); std::stringstream ss; ss << f.rdbuf(); err = ss.str(); }
        std::string cls = (WIFEXITED(status) && WEXITSTATUS(status) == 98) ? "hang" : classify_stderr(err, status);
        if (cls == "hang") {
            // re-run the timed-out case alone with a 10x budget before calling it a hang
            pid_t p2 = fork();
            if (p2 == 0) {
                FILE *ef = freopen("/dev/null", "w", stderr); (void)ef;
                signal(SIGALRM, [](int) { _exit(98); });
                alarm(per_case_seconds * 10);
                CaseResult r = fn(bad);
                _exit(r.viols.empty() ? 0 : 97);
            }
            int st2 = 0;
            waitpid(p2, &st2, 0);
            if (WIFEXITED(st2) && WEXITSTATUS(st2) == 0) cls = "slow-but-terminates";
            else if (WIFEXITED(st2) && WEXITSTATUS(st2) == 97) { CaseResult dummy; cls = "slow-with-violation"; }
            else if (!(WIFEXITED(st2) && WEXITSTATUS(st2) == 98)) cls = "slow-then-" + classify_stderr("", st2);
        }
        ctx.evaluations++;
        if (cls == "slow-but-terminates") { ctx.distinct.insert(cls); ctx.counts[cls]++; }
        else if (cls == "alloc-refused") { ctx.distinct.insert("alloc-refused"); ctx.counts["alloc-refused"]++; }
        else {
            ctx.distinct.insert(cls);
            ctx.viol(crash_rule_prefix + cls, err.substr(0, 1200), describe(bad));
        }
        start = std::max(bad, done_upto) + (bad >= done_upto ? 1 : 0);
        unlink(errpath.c_str());
    }
}

// ------------------------------------------------------------------------------------------------ mutation operators (bytes only)
struct Mut { int op; size_t pos; uint64_t val; int width; };  // op: 0 substitute byte, 1 delete byte, 2 insert byte, 3 duplicate byte, 4 truncate, 5 field window LE, 6 splice-append
static const uint8_t BYTE_VALUES[] = {0x00, 0x01, 0x02, 0x7f, 0x80, 0xfe, 0xff};
static const uint64_t FIELD_VALUES[] = {0ull, 1ull, 0x7full, 0x80ull, 0xffull, 0x100ull, 0xffffull, 0x10000ull, 0x7fffffffull, 0x80000000ull, 0xffffffffull, 0x8000000000000000ull, 0xffffffffffffffffull};

static std::vector<Mut> enumerate_byte_mutations(const std::string &f, bool thorough) {
    std::vector<Mut> r;
    for (size_t p = 0; p < f.size(); ++p) {
        uint8_t orig = (uint8_t)f[p];
        std::set<uint8_t> vals(BYTE_VALUES, BYTE_VALUES + 7);
        vals.insert(orig + 1); vals.insert(orig - 1); vals.insert(orig ^ 0x80);
        vals.erase(orig);
        for (uint8_t v : vals) r.push_back({0, p, v, 1});
        r.push_back({1, p, 0, 1});
        r.push_back({3, p, 0, 1});
        for (uint8_t v : (thorough ? std::vector<uint8_t>{0x00, 0x01, 0xff, 0x0a, 0x20} : std::vector<uint8_t>{0x00, 0xff})) r.push_back({2, p, v, 1});
    }
    for (size_t p = 0; p < f.size(); ++p) r.push_back({4, p, 0, 0});
    // numeric fields: every offset x little-endian windows of 2/4/8 bytes x boundary values (covers counts, lengths, spans, handles)
    for (size_t p = 0; p + 2 <= f.size(); p += (thorough ? 1 : 2))
        for (int w : {2, 4, 8}) {
            if (p + w > f.size()) continue;
            if (!thorough && (p % (w == 8 ? 4 : w)) != 0) continue;
            if (!thorough && w == 2 && (p % 4) != 0) continue;
            for (uint64_t v : FIELD_VALUES) { if (w < 8 && (v >> (8 * w)) != 0) continue; r.push_back({5, p, v, w}); }
        }
    return r;
}
static std::string apply_mut(const std::string &f, const Mut &m) {
    std::string s = f;
    switch (m.op) {
    case 0: s[m.pos] = (char)m.val; break;
    case 1: s.erase(m.pos, 1); break;
    case 2: s.insert(m.pos, 1, (char)m.val); break;
    case 3: s.insert(m.pos, 1, s[m.pos]); break;
    case 4: s.resize(m.pos); break;
    case 5: for (int i = 0; i < m.width; ++i) s[m.pos + i] = (char)((m.val >> (8 * i)) & 255); break;
    }
    return s;
}
static std::string mut_str(const Mut &m) { char b[96]; snprintf(b, sizeof b, "op%d@%zu:%llx/%d", m.op, m.pos, (unsigned long long)m.val, m.width); return b; }
static bool mut_parse(const std::string &s, Mut &m) { unsigned long long v; return sscanf(s.c_str(), "op%d@%zu:%llx/%d", &m.op, &m.pos, &v, &m.width) == 4 ? (m.val = v, true) : false; }

// text-format mutations: token / line level
static std::vector<std::string> ascii_token_mutations(const std::string &t, bool thorough) {
    std::vector<std::string> r;
    std::vector<std::pair<size_t, size_t>> toks;
    size_t i = 0;
    while (i < t.size()) { while (i < t.size() && isspace((unsigned char)t[i])) ++i; size_t j = i; while (j < t.size() && !isspace((unsigned char)t[j])) ++j; if (j > i) toks.push_back({i, j}); i = j; }
    std::vector<std::string> repl = {"", "-1", "0", "4294967296", "18446744073709551616", "1e400", "nan", "abc", "7"};
    if (!thorough) repl = {"", "-1", "4294967296", "abc", "18446744073709551616"};
    for (auto &tk : toks) for (auto &rp : repl) r.push_back(t.substr(0, tk.first) + rp + t.substr(tk.second));
    std::vector<std::pair<size_t, size_t>> lines;
    size_t p = 0;
    while (p < t.size()) { size_t q = t.find('\n', p); if (q == std::string::npos) q = t.size() - 1; lines.push_back({p, q + 1}); p = q + 1; }
    for (auto &l : lines) { r.push_back(t.substr(0, l.first) + t.substr(l.second)); r.push_back(t.substr(0, l.second) + t.substr(l.first)); }
    for (size_t k = 0; k < t.size(); k += (thorough ? 1 : 3)) r.push_back(t.substr(0, k));
    return r;
}

// structure-aware negative tests: the reference encoder writes the mesh with one encoding field of one chunk kind overridden
// and the payload consistent with the override (a single-byte substitution can never produce these: the payload size
// check rejects it first)
static std::vector<std::pair<std::string, std::string>> semantic_mutants(const MeshD &m) {
    std::vector<std::pair<std::string, std::string>> r;
    auto add = [&](const EncOpt &o, const std::string &label) { Bytes b = ref_encode(m, o); r.push_back({label, std::string(b.begin(), b.end())}); };
    for (int entity = 1; entity <= 3; ++entity) {
        size_t n = entity == 1 ? m.edges.size() : entity == 2 ? m.faces.size() : m.cells.size();
        if (!n) continue;
        for (int henc : {0, 1, 2, 3, 8, 255}) {
            EncOpt o; o.bad_entity = entity; o.bad_henc = henc; add(o, "sem:e" + std::to_string(entity) + ":h" + std::to_string(henc));
            if (entity > 1) { EncOpt o2 = o; o2.force_variable = true; add(o2, "sem:e" + std::to_string(entity) + ":h" + std::to_string(henc) + ":var"); }
        }
        for (int venc : {0, 1, 3, 255}) {
            EncOpt o; o.bad_entity = entity; o.bad_venc = venc; add(o, "sem:e" + std::to_string(entity) + ":v" + std::to_string(venc));
            if (entity > 1) { EncOpt o2 = o; o2.force_variable = true; add(o2, "sem:e" + std::to_string(entity) + ":v" + std::to_string(venc) + ":var"); }
        }
    }
    if (!m.pos.empty()) for (int ve : {0, 3, 255}) { EncOpt o; o.bad_vertenc = ve; add(o, "sem:vert:" + std::to_string(ve)); }
    return r;
}

// ------------------------------------------------------------------------------------------------ the three properties
struct FileCase { std::string name; MeshD mesh; std::string bytes; bool binary; };

static std::vector<FileCase> build_files(Ctx &ctx, bool binary, bool thorough, const std::vector<std::string> &types_small) {
    std::vector<FileCase> files;
    auto corpus = make_corpus(false);
    int salt = 0;
    for (auto &ce : corpus) {
        MeshD m = ce.mesh;
        // a few persistent properties per file (different types per file, cycling)
        std::vector<std::string> ts;
        for (int k = 0; k < 3; ++k) ts.push_back(types_small[(salt * 3 + k) % types_small.size()]);
        add_props(m, ts, {salt % 7, (salt + 3) % 7}, salt);
        ++salt;
        WriteOut w = binary ? lib_ovmb_write(m, K_POLY, -1, 0, -1) : lib_ascii_write(m, K_POLY, 0);
        if (!w.ok) { ctx.viol("harness:corpus-write-failed", ce.name + ": " + w.what, "corpus:" + ce.name); continue; }
        files.push_back({ce.name, m, w.bytes, binary});
    }
    (void)thorough;
    return files;
}

static std::vector<int> kernels_for(int topo, bool all3) {
    std::vector<int> k{K_POLY};
    if (all3 || topo == 1) k.push_back(K_TET);
    if (all3 || topo == 2) k.push_back(K_HEX);
    return k;
}

// ---- C07
static void run_c07(Ctx &ctx, bool thorough, int part, int nparts, const std::string &replay) {
    for (int binary = 1; binary >= 0; --binary) {
        auto files = build_files(ctx, binary, thorough, binary ? ALL_TYPES : ASCII_TYPES);
        for (size_t fi = 0; fi < files.size(); ++fi) {
            const FileCase &fc = files[fi];
            std::vector<std::string> inputs;
            std::vector<std::string> labels;
            if (binary) {
                for (auto &m : enumerate_byte_mutations(fc.bytes, thorough)) { inputs.push_back(apply_mut(fc.bytes, m)); labels.push_back(mut_str(m)); }
                // splices with the other corpus files at chunk boundaries
                Bytes fb(fc.bytes.begin(), fc.bytes.end());
                auto cp = walk_chunks(fb);
                for (size_t fj = 0; fj < files.size(); ++fj) {
                    if (fj == fi) continue;
                    if (!thorough && (fj + fi) % 4 != 0) continue;  // quick tier: splices with every fourth other file
                    Bytes ob(files[fj].bytes.begin(), files[fj].bytes.end());
                    auto op = walk_chunks(ob);
                    for (size_t a = 0; a < cp.size(); a += (thorough ? 1 : 2)) for (size_t b = 0; b < op.size(); b += (thorough ? 1 : 2)) {
                        inputs.push_back(fc.bytes.substr(0, cp[a].off) + files[fj].bytes.substr(op[b].off));
                        labels.push_back("splice:" + std::to_string(fj) + ":" + std::to_string(a) + ":" + std::to_string(b));
                    }
                }
                for (auto &sm : semantic_mutants(fc.mesh)) {
                    inputs.push_back(sm.second); labels.push_back(sm.first);
                    // composition: a semantic mutant that the format description does not reject (e.g. a VERT chunk without coordinates,
                    // a narrower but sufficient handle width) is a new valid shape of file, so the field-level mutations are applied to
                    // the sub-headers (span, count, encodings, offset) of the chunks of the kind it changed
                    Bytes sb(sm.second.begin(), sm.second.end());
                    if (ref_decode(sb).cls == Dec::REJECT) continue;
                    bool vert = sm.first.rfind("sem:vert", 0) == 0;
                    int ent = vert ? 0 : sm.first[5] - '0';
                    for (auto &c : walk_chunks(sb)) {
                        if (vert ? c.type != "VERT" : (c.type != "TOPO" || c.hdr_end + 13 > sb.size() || sb[c.hdr_end + 12] != ent)) continue;
                        size_t sub = vert ? 16 : 24, a = c.hdr_end, e = std::min(c.hdr_end + sub, c.end);
                        for (size_t q = a; q < e; ++q) for (uint8_t v : BYTE_VALUES) if (v != sb[q]) { Mut m{0, q, v, 1}; inputs.push_back(apply_mut(sm.second, m)); labels.push_back("sem2:" + sm.first.substr(4) + ":" + mut_str(m)); }
                        for (int w : {2, 4, 8}) for (size_t q = a; q + w <= e; q += w) for (uint64_t v : FIELD_VALUES) { if (w < 8 && (v >> (8 * w)) != 0) continue; Mut m{5, q, v, w}; inputs.push_back(apply_mut(sm.second, m)); labels.push_back("sem2:" + sm.first.substr(4) + ":" + mut_str(m)); }
                    }
                }
                // short byte strings appended after each chunk
                const char sym[] = {0x00, 0x01, (char)0xff, 'E', 'O', 0x08};
                for (auto &c : cp) for (int x = 0; x < 6; ++x) { inputs.push_back(fc.bytes.substr(0, c.end) + std::string(1, sym[x]) + fc.bytes.substr(c.end)); labels.push_back("ins1@" + std::to_string(c.end) + ":" + std::to_string(x));
                    if (thorough) for (int y = 0; y < 6; ++y) { inputs.push_back(fc.bytes.substr(0, c.end) + std::string(1, sym[x]) + std::string(1, sym[y]) + fc.bytes.substr(c.end)); labels.push_back("ins2@" + std::to_string(c.end) + ":" + std::to_string(x * 6 + y)); } }
            } else {
                int k = 0;
                for (auto &s : ascii_token_mutations(fc.bytes, thorough)) { inputs.push_back(s); labels.push_back("tok" + std::to_string(k++)); }
                for (auto &m : enumerate_byte_mutations(fc.bytes, false)) { if (m.op == 5 || (m.op == 0 && m.pos % 3)) continue; inputs.push_back(apply_mut(fc.bytes, m)); labels.push_back(mut_str(m)); }
            }
            auto kernels = kernels_for(fc.mesh.topo, thorough);
            size_t per = kernels.size() * 2;
            auto describe = [&](size_t i) { return std::string("c07|") + (binary ? "ovmb" : "ascii") + "|file=" + std::to_string(fi) + "|" + labels[i / per] + "|k" + std::to_string(kernels[(i % per) / 2]) + "|chk" + std::to_string(i % 2); };
            CaseFn fn = [&](size_t i) {
                CaseResult cr;
                const std::string &in = inputs[i / per];
                int kernel = kernels[(i % per) / 2];
                bool chk = i % 2;
                ReadOut r = binary ? lib_ovmb_read(in, kernel, chk, true, -1) : lib_ascii_read(in, kernel, chk, true);
                std::string opname = labels[i / per].substr(0, labels[i / per].find_first_of("@:0123456789"));
                cr.outcome = opname + "|" + (r.threw ? "exception" : r.ok ? "ok" : "rejected:" + std::to_string(r.result));
                if (r.ok && !r.audit.empty()) cr.viols.push_back({"c07:success-with-invalid-mesh", r.audit});
                return cr;
            };
            if (!replay.empty()) {
                for (size_t i = 0; i < inputs.size() * per; ++i) if (describe(i) == replay) {
                    CaseResult cr = fn(i);
                    for (auto &v : cr.viols) printf("REPLAY-VIOLATION rule=%s detail=%s\n", v.first.c_str(), v.second.c_str());
                    printf("REPLAY-OUTCOME %s\n", cr.outcome.c_str());
                    exit(cr.viols.empty() ? 0 : 1);
                }
                continue;
            }
            if (ctx.samples.size() < 4) ctx.samples.push_back(describe(ctx.samples.size() * 7 % (inputs.size() * per)) + " input=" + hex_of(inputs[0], 48) + "...");
            // cases of one file are dealt out to the parts in blocks of 2048 (files differ a lot in size)
            std::vector<size_t> mine;
            for (size_t i = 0; i < inputs.size() * per; ++i) if ((int)((i / 2048 + fi) % (size_t)nparts) == part) mine.push_back(i);
            run_cases(ctx, mine.size(), [&](size_t k) { return fn(mine[k]); }, [&](size_t k) { return describe(mine[k]); }, "c07:", 3);
            if (ctx.capped) return;
        }
    }
}

// ---- C18
static void run_c18(Ctx &ctx, bool thorough, int part, int nparts, const std::string &replay) {
    auto files = build_files(ctx, true, thorough, ALL_TYPES);
    for (size_t fi = 0; fi < files.size(); ++fi) {
        if ((int)(fi % nparts) != part && replay.empty()) continue;
        const FileCase &fc = files[fi];
        Bytes fb(fc.bytes.begin(), fc.bytes.end());
        auto cp = walk_chunks(fb);
        struct In { std::string bytes, label; long fail_at = -1; int mode = 0; };  // mode 0 read, 1 write-fault
        std::vector<In> ins;
        for (size_t k = 0; k < fc.bytes.size(); ++k) ins.push_back({fc.bytes.substr(0, k), "trunc@" + std::to_string(k), -1, 0});
        // every byte of the file header and of every chunk header / sub-header x boundary values
        std::vector<size_t> hdr;
        for (size_t p = 0; p < 48; ++p) hdr.push_back(p);
        for (auto &c : cp) {
            size_t sub = c.type == "VERT" ? 16 : c.type == "TOPO" ? 24 : c.type == "PROP" ? 16 : 0;
            for (size_t p = c.off; p < c.hdr_end + sub && p < c.end; ++p) hdr.push_back(p);
            for (size_t p = c.payload_end; p < c.end; ++p) hdr.push_back(p);  // padding bytes
        }
        for (size_t p : hdr) {
            uint8_t orig = fb[p];
            std::set<uint8_t> vals(BYTE_VALUES, BYTE_VALUES + 7);
            vals.insert(orig + 1); vals.insert(orig - 1); vals.insert(orig ^ 0x80); vals.insert(3); vals.insert(4); vals.insert(8);
            vals.erase(orig);
            for (uint8_t v : vals) { std::string s = fc.bytes; s[p] = (char)v; ins.push_back({s, "hdr@" + std::to_string(p) + ":" + std::to_string(v), -1, 0}); }
        }
        // chunk dropped / duplicated / moved to every other position
        for (size_t a = 0; a < cp.size(); ++a) {
            std::string chunk = fc.bytes.substr(cp[a].off, cp[a].end - cp[a].off);
            std::string without = fc.bytes.substr(0, cp[a].off) + fc.bytes.substr(cp[a].end);
            ins.push_back({without, "drop#" + std::to_string(a), -1, 0});
            ins.push_back({fc.bytes.substr(0, cp[a].end) + chunk + fc.bytes.substr(cp[a].end), "dup#" + std::to_string(a), -1, 0});
            Bytes wb(without.begin(), without.end());
            auto wp = walk_chunks(wb);
            for (size_t b = 0; b <= wp.size(); ++b) {
                size_t at = b < wp.size() ? wp[b].off : without.size();
                if (at == cp[a].off) continue;
                ins.push_back({without.substr(0, at) + chunk + without.substr(at), "move#" + std::to_string(a) + "to" + std::to_string(b), -1, 0});
            }
        }
        for (auto &sm : semantic_mutants(fc.mesh)) {
            ins.push_back({sm.second, sm.first, -1, 0});
            Bytes sb(sm.second.begin(), sm.second.end());
            if (ref_decode(sb).cls == Dec::REJECT) continue;
            bool vert = sm.first.rfind("sem:vert", 0) == 0;
            int ent = vert ? 0 : sm.first[5] - '0';
            for (auto &c : walk_chunks(sb)) {
                if (vert ? c.type != "VERT" : (c.type != "TOPO" || c.hdr_end + 13 > sb.size() || sb[c.hdr_end + 12] != ent)) continue;
                size_t sub = vert ? 16 : 24, a = c.hdr_end, e = std::min(c.hdr_end + sub, c.end);
                for (size_t q = a; q < e; ++q) for (uint8_t v : BYTE_VALUES) if (v != sb[q]) { Mut m{0, q, v, 1}; ins.push_back({apply_mut(sm.second, m), "sem2:" + sm.first.substr(4) + ":" + mut_str(m), -1, 0}); }
                for (int w : {2, 4, 8}) for (size_t q = a; q + w <= e; q += w) for (uint64_t v : FIELD_VALUES) { if (w < 8 && (v >> (8 * w)) != 0) continue; Mut m{5, q, v, w}; ins.push_back({apply_mut(sm.second, m), "sem2:" + sm.first.substr(4) + ":" + mut_str(m), -1, 0}); }
            }
        }
        // stream faults: input failing from byte k (every k), output failing from byte k
        for (size_t k = 0; k < fc.bytes.size(); ++k) ins.push_back({fc.bytes, "readfail@" + std::to_string(k), (long)k, 0});
        for (size_t k = 0; k < fc.bytes.size(); ++k) ins.push_back({"", "writefail@" + std::to_string(k), (long)k, 1});
        auto kernels = kernels_for(fc.mesh.topo, false);
        size_t per = kernels.size();
        auto describe = [&](size_t i) { return "c18|file=" + std::to_string(fi) + "|" + ins[i / per].label + "|k" + std::to_string(kernels[i % per]); };
        CaseFn fn = [&](size_t i) {
            CaseResult cr;
            const In &in = ins[i / per];
            int kernel = kernels[i % per];
            std::string op = in.label.substr(0, in.label.find_first_of("@#"));
            if (in.mode == 1) {
                WriteOut w = lib_ovmb_write(fc.mesh, kernel == K_POLY ? K_POLY : kernel, -1, 0, in.fail_at);
                cr.outcome = op + "|" + (w.ok ? "ok" : "error");
                if (w.ok) cr.viols.push_back({"c18:write-fault-reported-ok", "output stream failing from byte " + std::to_string(in.fail_at) + " but ovmb_write returned Ok"});
                return cr;
            }
            ReadOut r = lib_ovmb_read(in.bytes, kernel, false, true, in.fail_at);
            cr.outcome = op + "|" + (r.threw ? "exception" : r.ok ? "ok" : "rejected:" + std::to_string(r.result));
            if (r.ok && !r.audit.empty()) cr.viols.push_back({"c18:success-with-invalid-mesh", r.audit});
            if (in.fail_at >= 0) { if (r.ok) cr.viols.push_back({"c18:read-fault-reported-ok", "input stream failing from byte " + std::to_string(in.fail_at) + " of " + std::to_string(in.bytes.size()) + " but ovmb_read returned Ok"}); return cr; }
            if (op == "trunc") { if (r.ok) cr.viols.push_back({"c18:truncated-file-accepted", "prefix of length " + std::to_string(in.bytes.size()) + " of " + std::to_string(fc.bytes.size()) + " bytes read as Ok"}); return cr; }
            Dec d = ref_decode(Bytes(in.bytes.begin(), in.bytes.end()));
            cr.outcome += d.cls == Dec::REJECT ? "|must-reject" : d.cls == Dec::ACCEPT ? "|valid" : "|unspecified";
            if (d.cls == Dec::REJECT && r.ok) cr.viols.push_back({"c18:must-reject:" + d.rule, in.label + ": the file violates the format description (" + d.rule + ") but was read as Ok"});
            if (d.cls == Dec::ACCEPT && r.ok) {
                bool hexk = kernel == K_HEX;
                std::string df = diff_mesh(d.mesh, r.mesh, hexk);
                if (!df.empty()) cr.viols.push_back({"c18:misread-valid-file", in.label + ": " + df});
            }
            return cr;
        };
        if (!replay.empty()) {
            for (size_t i = 0; i < ins.size() * per; ++i) if (describe(i) == replay) {
                CaseResult cr = fn(i);
                for (auto &v : cr.viols) printf("REPLAY-VIOLATION rule=%s detail=%s\n", v.first.c_str(), v.second.c_str());
                printf("REPLAY-OUTCOME %s\n", cr.outcome.c_str());
                exit(cr.viols.empty() ? 0 : 1);
            }
            continue;
        }
        if (ctx.samples.size() < 4) ctx.samples.push_back(describe((fi * 131) % (ins.size() * per)));
        run_cases(ctx, ins.size() * per, fn, describe, "c18:", 3);
        if (ctx.capped) return;
    }
}

// ---- C06
static std::vector<EncOpt> encoding_lattice(const MeshD &m, bool thorough) {
    std::vector<EncOpt> r;
    EncOpt base;
    r.push_back(base);
    bool floatable = true;
    for (auto &p : m.pos) for (double x : p) if ((double)(float)x != x) floatable = false;
    if (floatable && !m.pos.empty()) { EncOpt o; o.vert_enc = 1; r.push_back(o); }
    for (int w : {2, 4}) { EncOpt o; o.wE = o.wF = o.wC = w; r.push_back(o); EncOpt o2; o2.wE = w; r.push_back(o2); EncOpt o3; o3.wF = w; o3.wVal = w; o3.force_variable = m.topo == 0; r.push_back(o3); EncOpt o4; o4.wC = w; r.push_back(o4); }
    { EncOpt o; o.min_offset = true; r.push_back(o); }
    if (m.topo == 0) { EncOpt o; o.force_variable = true; r.push_back(o); EncOpt o2; o2.force_variable = true; o2.wVal = 4; r.push_back(o2); }
    { EncOpt o; o.dirp_late = true; r.push_back(o); }
    { EncOpt o; o.props_interleaved = true; r.push_back(o); }
    size_t nchunks = 12;
    for (size_t k = 0; k <= nchunks; k += (thorough ? 1 : 2)) { EncOpt o; o.unknown_at = (int)k; r.push_back(o); }
    // 2-way (and 3-way) span splits of every chunk kind
    auto splits = [&](size_t n, std::function<void(EncOpt &, std::vector<size_t>)> set) {
        for (size_t a = 1; a < n; a += (thorough || n < 8 ? 1 : std::max<size_t>(1, n / 6))) {
            EncOpt o; set(o, {a}); r.push_back(o);
            EncOpt om = o; om.min_offset = true; r.push_back(om);
            if (thorough) for (size_t b = a + 1; b < n; b += std::max<size_t>(1, n / 5)) { EncOpt o3; set(o3, {a, b}); r.push_back(o3); }
        }
    };
    splits(m.pos.size(), [](EncOpt &o, std::vector<size_t> c) { o.cutV = c; });
    splits(m.edges.size(), [](EncOpt &o, std::vector<size_t> c) { o.cutE = c; });
    splits(m.faces.size(), [](EncOpt &o, std::vector<size_t> c) { o.cutF = c; });
    splits(m.cells.size(), [](EncOpt &o, std::vector<size_t> c) { o.cutC = c; });
    size_t maxp = 0;
    for (auto &p : m.props) maxp = std::max(maxp, p.vals.size());
    splits(std::min<size_t>(maxp, 20), [](EncOpt &o, std::vector<size_t> c) { o.cutP = c; });
    // everything at once
    { EncOpt o; o.wE = o.wF = o.wC = 4; o.min_offset = true; o.cutV = {1}; o.cutE = {1, 2}; o.cutF = {1}; o.cutC = {1}; o.cutP = {3}; o.unknown_at = 2; o.props_interleaved = true; r.push_back(o); }
    return r;
}

static void run_c06(Ctx &ctx, bool thorough, int part, int nparts, const std::string &replay) {
    auto corpus = make_corpus(true);
    // property sets: every codec type on rotating entity kinds; thorough: every type on every kind
    std::vector<MeshD> meshes;
    std::vector<std::string> names;
    int salt = 0;
    for (auto &ce : corpus) {
        if (ce.big) { MeshD m = ce.mesh; add_props(m, {"b", "u16"}, {0, 4}, salt++); meshes.push_back(m); names.push_back(ce.name); continue; }
        { MeshD m = ce.mesh; meshes.push_back(m); names.push_back(ce.name + "/noprops"); }
        for (size_t t0 = 0; t0 < ALL_TYPES.size(); t0 += 6) {
            MeshD m = ce.mesh;
            std::vector<std::string> ts(ALL_TYPES.begin() + t0, ALL_TYPES.begin() + std::min(ALL_TYPES.size(), t0 + 6));
            std::vector<int> ents = thorough ? std::vector<int>{0, 1, 2, 3, 4, 5, 6} : std::vector<int>{salt % 7, (salt + 2) % 7, (salt + 5) % 7};
            add_props(m, ts, ents, salt++);
            meshes.push_back(m);
            names.push_back(ce.name + "/types" + std::to_string(t0));
            if (!thorough && t0 >= 12 && (salt % 2)) break;
        }
    }
    for (size_t mi = 0; mi < meshes.size(); ++mi) {
        if ((int)(mi % nparts) != part && replay.empty()) continue;
        const MeshD &M = meshes[mi];
        bool bigmesh = M.pos.size() > 200 || M.edges.size() > 100 || M.faces.size() > 100;
        bool tc_ok = passes_topology_check(M);
        std::vector<EncOpt> lattice = encoding_lattice(M, thorough && !bigmesh);
        // sub-cases: 0 writer+refdecode ; 1.. reads of writer bytes ; alt encodings ; ascii ; pending
        struct Sub { int kind; int kernel; bool chk, bu; int enc; int pending; };
        std::vector<Sub> subs;
        auto kernels = kernels_for(M.topo, false);
        subs.push_back({0, K_POLY, false, true, 0, 0});
        for (int k : kernels) for (int chk = 0; chk <= (tc_ok ? 1 : 0); ++chk) for (int bu = 0; bu < 2; ++bu) subs.push_back({1, k, (bool)chk, (bool)bu, 0, 0});
        for (size_t e = 0; e < lattice.size(); ++e) for (int k : kernels) subs.push_back({2, k, false, true, (int)e, 0});
        for (int k : kernels) { subs.push_back({3, k, false, true, 0, 0}); if (tc_ok) subs.push_back({3, k, true, false, 0, 0}); }
        for (int pend = 1; pend <= 4; ++pend) { subs.push_back({4, K_POLY, false, true, 0, pend}); subs.push_back({5, K_POLY, false, true, 0, pend}); }
        subs.push_back({6, K_POLY, false, true, 0, 0});  // read_file by extension + autodetection
        for (int k : kernels) if (k != K_POLY) subs.push_back({7, k, false, true, 0, 0});  // written from the specialised kernel
        auto describe = [&](size_t i) { const Sub &s = subs[i]; return "c06|mesh=" + std::to_string(mi) + ":" + names[mi] + "|kind" + std::to_string(s.kind) + "|k" + std::to_string(s.kernel) + "|chk" + std::to_string(s.chk) + "|bu" + std::to_string(s.bu) + "|enc" + std::to_string(s.enc) + "|pend" + std::to_string(s.pending); };
        CaseFn fn = [&](size_t i) {
            CaseResult cr;
            const Sub &s = subs[i];
            auto V = [&](const std::string &rule, const std::string &d) { cr.viols.push_back({rule, names[mi] + ": " + d}); };
            bool hexcmp = s.kernel == K_HEX && s.chk;
            if (s.kind == 0) {
                WriteOut w = lib_ovmb_write(M, K_POLY, -1, 0, -1);
                if (!w.ok) { V("c06:write-failed", w.what); cr.outcome = "write|failed"; return cr; }
                Dec d = ref_decode(Bytes(w.bytes.begin(), w.bytes.end()));
                cr.outcome = "refdecode|" + std::to_string(d.cls);
                if (d.cls != Dec::ACCEPT) V("c06:writer-output-not-valid-per-description", d.rule);
                else { std::string df = diff_mesh(M, d.mesh); if (!df.empty()) V("c06:writer-output-decodes-to-different-mesh", df); if (d.mesh.topo != M.topo) V("c06:topology-autodetection", "file says " + std::to_string(d.mesh.topo) + " expected " + std::to_string(M.topo)); }
            } else if (s.kind == 1 || s.kind == 7) {
                WriteOut w = lib_ovmb_write(M, s.kind == 7 ? s.kernel : K_POLY, -1, 0, -1);
                if (!w.ok) { V("c06:write-failed", w.what); return cr; }
                ReadOut r = lib_ovmb_read(w.bytes, s.kernel, s.chk, s.bu, -1);
                cr.outcome = "roundtrip|" + std::to_string(r.ok);
                if (!r.ok) V("c06:roundtrip-read-failed", "result " + std::to_string(r.result) + " " + r.what);
                else { std::string df = diff_mesh(M, r.mesh, hexcmp); if (!df.empty()) V("c06:roundtrip-mismatch", df); if (!r.audit.empty()) V("c06:roundtrip-invalid", r.audit); }
            } else if (s.kind == 2) {
                Bytes b = ref_encode(M, lattice[s.enc]);
                Dec d = ref_decode(b);
                if (d.cls != Dec::ACCEPT || !diff_mesh(M, d.mesh).empty()) { V("harness:ref-codec-self-check", lattice[s.enc].str() + " " + d.rule + " " + diff_mesh(M, d.mesh)); return cr; }
                ReadOut r = lib_ovmb_read(std::string(b.begin(), b.end()), s.kernel, false, true, -1);
                std::string ename = lattice[s.enc].str();
                cr.outcome = "alt|" + std::to_string(r.ok);
                std::string cls = !lattice[s.enc].cutE.empty() || lattice[s.enc].min_offset ? "offsets/spans" : "other";
                if (!r.ok) V("c06:alternative-encoding-rejected", "encoding [" + ename + "] result " + std::to_string(r.result) + " " + r.what);
                else { std::string df = diff_mesh(M, r.mesh, false); if (!df.empty()) V("c06:alternative-encoding-misread", "encoding [" + ename + "]: " + df); }
            } else if (s.kind == 3) {
                // OVM-ASCII: properties limited to the types the text format names
                MeshD A = M;
                A.props.erase(std::remove_if(A.props.begin(), A.props.end(), [](const PropD &p) { return !std::count(ASCII_TYPES.begin(), ASCII_TYPES.end(), p.type) || p.type == "s32"; }), A.props.end());
                sanitize_for_ascii(A);
                WriteOut w1 = lib_ascii_write(A, K_POLY, 0);
                if (!w1.ok) { V("c06:ascii-write-failed", w1.what); return cr; }
                ReadOut r1 = lib_ascii_read(w1.bytes, s.kernel, s.chk, s.bu);
                cr.outcome = "ascii|" + std::to_string(r1.ok);
                if (!r1.ok) { V("c06:ascii-roundtrip-read-failed", r1.what); return cr; }
                std::string df = diff_mesh(A, r1.mesh, hexcmp, false, false);
                if (!df.empty()) V("c06:ascii-roundtrip-topology", df);
                if (!r1.audit.empty()) V("c06:ascii-roundtrip-invalid", r1.audit);
                // properties: kind / name / type, exact values for integer & bool types
                if (r1.mesh.props.size() != A.props.size()) V("c06:ascii-property-set", std::to_string(r1.mesh.props.size()) + " properties read, " + std::to_string(A.props.size()) + " written");
                else for (size_t k = 0; k < A.props.size(); ++k) {
                    const PropD &x = A.props[k], &y = r1.mesh.props[k];
                    if (x.entity != y.entity || x.name != y.name || x.type != y.type) { V("c06:ascii-property-identity", x.name + "/" + x.type + " vs " + y.name + "/" + y.type); break; }
                    bool exact = x.type[0] == 'b' || x.type[0] == 'u' || x.type[0] == 'i' || x.type.find("u32") != std::string::npos || x.type.find("i32") != std::string::npos;
                    if (exact && x.vals != y.vals) { V("c06:ascii-property-values", x.name + "/" + x.type); break; }
                }
                // second round trip changes nothing
                r1.mesh.topo = A.topo;
                WriteOut w2 = lib_ascii_write(r1.mesh, K_POLY, 0);
                if (!hexcmp && normalise_ascii(w2.bytes) != normalise_ascii(w1.bytes)) {
                    w1.bytes = normalise_ascii(w1.bytes); w2.bytes = normalise_ascii(w2.bytes);
                    size_t p = 0; while (p < w1.bytes.size() && p < w2.bytes.size() && w1.bytes[p] == w2.bytes[p]) ++p;
                    V("c06:ascii-second-roundtrip-differs", "first difference at byte " + std::to_string(p) + ": '" + w1.bytes.substr(p > 20 ? p - 20 : 0, 50) + "' vs '" + w2.bytes.substr(p > 20 ? p - 20 : 0, 50) + "'");
                }
            } else if (s.kind == 4 || s.kind == 5) {
                bool bin = s.kind == 4;
                MeshD A = M;
                if (!bin) A.props.erase(std::remove_if(A.props.begin(), A.props.end(), [](const PropD &p) { return !std::count(ASCII_TYPES.begin(), ASCII_TYPES.end(), p.type) || p.type == "s32" || p.type == "f" || p.type == "d" || p.type.find('f') != std::string::npos || p.type.find('d') != std::string::npos; }), A.props.end());
                size_t need = s.pending == 1 ? A.cells.size() : s.pending == 2 ? A.faces.size() : s.pending == 3 ? A.edges.size() : A.pos.size();
                if (!need) { cr.outcome = "pending|n/a"; return cr; }
                WriteOut w = bin ? lib_ovmb_write(A, K_POLY, -1, s.pending, -1) : lib_ascii_write(A, K_POLY, s.pending);
                cr.outcome = std::string("pending|") + (w.ok ? "written" : "refused");
                if (!w.ok) return cr;  // refused: fine
                MeshD L = lib_logical_after_pending(A, K_POLY, s.pending);
                ReadOut r = bin ? lib_ovmb_read(w.bytes, K_POLY, false, true, -1) : lib_ascii_read(w.bytes, K_POLY, false, true);
                if (!r.ok) { V(std::string("c06:pending-deletions-written-unreadable:") + (bin ? "ovmb" : "ascii"), "a mesh with pending deletions was written without error but the file does not read back"); return cr; }
                std::string df = diff_mesh(L, r.mesh, false, bin, bin);
                if (!df.empty()) V(std::string("c06:pending-deletions-written-as-different-mesh:") + (bin ? "ovmb" : "ascii"), df);
            } else if (s.kind == 6) {
                WriteOut w = lib_ovmb_write(M, K_POLY, -1, 0, -1);
                ReadOut r = lib_read_file(w.bytes, true, K_POLY, false, true);
                cr.outcome = "read_file|" + std::to_string(r.ok);
                if (!r.ok) V("c06:read_file-ovmb", r.what);
                else if (!diff_mesh(M, r.mesh).empty()) V("c06:read_file-ovmb-mismatch", diff_mesh(M, r.mesh));
                MeshD A = M; A.props.clear();
                WriteOut wa = lib_ascii_write(A, K_POLY, 0);
                ReadOut ra = lib_read_file(wa.bytes, false, K_POLY, false, true);
                if (!ra.ok) V("c06:read_file-ovm", ra.what);
                else if (!diff_mesh(A, ra.mesh, false, false, false).empty()) V("c06:read_file-ovm-mismatch", diff_mesh(A, ra.mesh, false, false, false));
                int det = lib_detect(wa.bytes);
                // the text-format detectors look at cell valences only
                int exp = 0;
                if (!A.cells.empty()) { bool t = true, h = true; for (auto &c : A.cells) { if (c.size() != 4) t = false; if (c.size() != 6) h = false; } exp = t ? 1 : h ? 2 : 0; }
                if (det != exp) V("c06:ascii-type-detection", "detected " + std::to_string(det) + " expected " + std::to_string(exp));
            }
            return cr;
        };
        if (!replay.empty()) {
            for (size_t i = 0; i < subs.size(); ++i) if (describe(i) == replay) {
                CaseResult cr = fn(i);
                for (auto &v : cr.viols) printf("REPLAY-VIOLATION rule=%s detail=%s\n", v.first.c_str(), v.second.c_str());
                printf("REPLAY-OUTCOME %s\n", cr.outcome.c_str());
                exit(cr.viols.empty() ? 0 : 1);
            }
            continue;
        }
        if (ctx.samples.size() < 4) ctx.samples.push_back(describe(std::min<size_t>(subs.size() - 1, 9 + mi % 5)) + " encoding=" + lattice[std::min<size_t>(lattice.size() - 1, mi % lattice.size())].str());
        run_cases(ctx, subs.size(), fn, describe, "c06:", bigmesh ? 60 : 20);
        if (ctx.capped) return;
    }
}

static std::string jesc(const std::string &s) {
    std::string r;
    for (char c : s) { if (c == '"' || c == '\\') { r += '\\'; r += c; } else if ((unsigned char)c < 32 || (unsigned char)c > 126) r += '.'; else r += c; }
    return r;
}

extern "C" const char *__asan_default_options() { return "detect_leaks=0:allocator_may_return_null=1:max_allocation_size_mb=256:abort_on_error=0"; }

int main(int argc, char **argv) {
    Ctx ctx;
    std::string out, replay;
    bool thorough = false, has_replay = false;
    int part = 0, nparts = 1;
    for (int i = 1; i < argc; ++i) {
        std::string k = argv[i];
        auto nxt = [&]() { return std::string(i + 1 < argc ? argv[++i] : ""); };
        if (k == "--prop") ctx.prop = nxt();
        else if (k == "--out") out = nxt();
        else if (k == "--tier") thorough = nxt() == "thorough";
        else if (k == "--part") { std::string p = nxt(); sscanf(p.c_str(), "%d/%d", &part, &nparts); }
        else if (k == "--deadline") ctx.deadline = std::stod(nxt());
        else if (k == "--replay") { replay = nxt(); has_replay = true; }
        else if (k == "--known") { std::string c = nxt(); size_t p = 0; while (p <= c.size()) { size_t q = c.find(',', p); if (q == std::string::npos) q = c.size(); if (q > p) ctx.known.insert(c.substr(p, q - p)); p = q + 1; } }
    }
    if (has_replay) {
        // thoroughness influences the enumeration; try both so that a replay string from either tier is found
        for (int t = 0; t < 2; ++t) {
            if (ctx.prop == "C06") run_c06(ctx, t, 0, 1, replay);
            if (ctx.prop == "C07") run_c07(ctx, t, 0, 1, replay);
            if (ctx.prop == "C18") run_c18(ctx, t, 0, 1, replay);
        }
        printf("REPLAY-CASE-NOT-FOUND\n");
        return 2;
    }
    if (ctx.prop == "C06") run_c06(ctx, thorough, part, nparts, "");
    else if (ctx.prop == "C07") run_c07(ctx, thorough, part, nparts, "");
    else if (ctx.prop == "C18") run_c18(ctx, thorough, part, nparts, "");
    else { fprintf(stderr, "unknown --prop\n"); return 2; }
    std::ostringstream o;
    double wall = std::chrono::duration<double>(std::chrono::steady_clock::now() - ctx.t0).count();
    o << "{\"prop\":\"" << ctx.prop << "\",\"part\":" << part << ",\"evaluations\":" << ctx.evaluations << ",\"distinct_nontrivial\":" << ctx.distinct.size()
      << ",\"capped\":" << (ctx.capped ? "true" : "false") << ",\"wall_s\":" << wall << ",\"checks\":{";
    bool f = true;
    for (auto &kv : ctx.counts) { o << (f ? "" : ",") << "\"" << jesc(kv.first) << "\":" << kv.second; f = false; }
    o << "},\"outcome_classes\":[";
    f = true;
    for (auto &d : ctx.distinct) { o << (f ? "" : ",") << "\"" << jesc(d) << "\""; f = false; }
    o << "],\"samples\":[";
    for (size_t i = 0; i < ctx.samples.size(); ++i) o << (i ? "," : "") << "\"" << jesc(ctx.samples[i]) << "\"";
    o << "],\"violations\":[";
    for (size_t i = 0; i < ctx.viols.size(); ++i) o << (i ? "," : "") << "{\"case\":\"" << jesc(ctx.viols[i].casestr) << "\",\"rule\":\"" << jesc(ctx.viols[i].rule) << "\",\"detail\":\"" << jesc(ctx.viols[i].detail.substr(0, 1500)) << "\"}";
    o << "],\"known\":[";
    f = true;
    for (auto &kv : ctx.known_hits) { o << (f ? "" : ",") << "{\"case\":\"" << jesc(kv.second.casestr) << "\",\"rule\":\"" << jesc(kv.first) << "\",\"detail\":\"" << jesc(kv.second.detail.substr(0, 600)) << "\"}"; f = false; }
    o << "]}";
    if (!out.empty()) { std::ofstream fo(out); fo << o.str() << "\n"; } else printf("%s\n", o.str().c_str());
    return ctx.viols.empty() ? 0 : 1;
}
