// Engine E3 (ovmio): interface between the enumeration / reference-codec side (ovmio_main.cc, no library IO
// headers) and the library shim (ovmio_lib.cc, the only TU that instantiates the IO templates).
#pragma once
#include <array>
#include <cstdint>
#include <string>
#include <vector>

namespace io {

using Bytes = std::vector<uint8_t>;

// A property in "description space": every value is the byte string of its single-value OVMB encoding
// (bool: one byte 0/1).  This keeps the reference codec type-agnostic.
struct PropD {
    int entity = 0;  // OVMB PropertyEntity: 0 V, 1 E, 2 F, 3 C, 4 HE, 5 HF, 6 M
    std::string name, type;
    Bytes def;
    std::vector<Bytes> vals;
    bool operator==(const PropD &o) const { return entity == o.entity && name == o.name && type == o.type && def == o.def && vals == o.vals; }
};

struct MeshD {
    int topo = 0;  // file topo type: 0 poly 1 tet 2 hex
    std::vector<std::array<double, 3>> pos;
    std::vector<std::array<int, 2>> edges;
    std::vector<std::vector<int>> faces, cells;
    std::vector<PropD> props;
};

enum Kernel { K_POLY = 0, K_TET = 1, K_HEX = 2 };

struct ReadOut {
    int result = -1;     // OVMB: ReadResult (0 == Ok); ASCII: 1 == true, 0 == false
    bool ok = false;     // success reported
    bool threw = false;  // a std::exception escaped to the caller
    std::string what;
    MeshD mesh;          // dump of the mesh after a successful read
    std::string audit;   // non-empty: the successful mesh is not valid (handle out of range, property size mismatch, ...)
};

struct WriteOut {
    int result = -1;  // OVMB: WriteResult (0 == Ok); ASCII: stream good() after writing
    bool ok = false;
    bool threw = false;
    std::string what;
    std::string bytes;
};

// which = 0: nothing pending; otherwise entities are deleted (deferred) before writing:
// 1: last cell, 2: first face (+ its cells), 3: first edge (+closure), 4: last vertex (+closure)
WriteOut lib_ovmb_write(const MeshD &m, int kernel, int topo_option /* -1 autodetect, else 0..2 */, int pending, long fail_at /* <0: never */);
WriteOut lib_ascii_write(const MeshD &m, int kernel, int pending);
ReadOut lib_ovmb_read(const std::string &bytes, int kernel, bool topo_check, bool bu, long fail_at /* <0: never */);
ReadOut lib_ascii_read(const std::string &text, int kernel, bool topo_check, bool bu);
// read_file() by extension / FileManager::readFile through a temporary file; autodetection helpers
ReadOut lib_read_file(const std::string &bytes, bool binary, int kernel, bool topo_check, bool bu);
int lib_detect(const std::string &text_path_contents);  // ASCII: 0 poly 1 tet 2 hex via isTetrahedralMesh/isHexahedralMesh
std::vector<std::string> lib_type_names();              // registered OVMB codec type names the shim supports

// value alphabets: encoded single values per supported type name (defined in ovmio_lib.cc next to the type table)
std::vector<Bytes> lib_value_alphabet(const std::string &type);
// logical mesh dump after garbage collection of the `pending` selection (what a writer may emit instead of refusing)
MeshD lib_logical_after_pending(const MeshD &m, int kernel, int pending);

}  // namespace io
