// Independent OVMB codec written from extra/ovmb-kaitai/ovmb.ksy and documentation/subpages/binary_file_format.docu
// (it shares no code with src/OpenVolumeMesh/IO).  Decoder classifies every byte string as ACCEPT(mesh), REJECT(rule)
// or UNSPEC (the documents leave it open); encoder produces any encoding of a mesh from a finite option lattice.
#pragma once
#include "ovmio.hh"

#include <algorithm>
#include <cstring>
#include <map>
#include <string>

namespace io {

struct LW {  // little-endian writer
    Bytes b;
    void u8(uint64_t v) { b.push_back((uint8_t)v); }
    void u16(uint64_t v) { u8(v & 255); u8((v >> 8) & 255); }
    void u32(uint64_t v) { u16(v & 65535); u16((v >> 16) & 65535); }
    void u64(uint64_t v) { u32(v & 0xffffffffull); u32(v >> 32); }
    void uN(int w, uint64_t v) { if (w == 0) return; if (w == 1) u8(v); else if (w == 2) u16(v); else u32(v); }
    void raw(const Bytes &x) { b.insert(b.end(), x.begin(), x.end()); }
    void str(const std::string &s) { b.insert(b.end(), s.begin(), s.end()); }
    void f64(double d) { uint64_t t; std::memcpy(&t, &d, 8); u64(t); }
    void f32(float d) { uint32_t t; std::memcpy(&t, &d, 4); u32(t); }
};
struct LR {  // little-endian reader over a byte range
    const uint8_t *p, *e;
    bool fail = false;
    size_t left() const { return (size_t)(e - p); }
    uint64_t uN(int w) { if (left() < (size_t)w) { fail = true; p = e; return 0; } uint64_t v = 0; for (int i = 0; i < w; ++i) v |= (uint64_t)p[i] << (8 * i); p += w; return v; }
    uint64_t u8() { return uN(1); } uint64_t u16() { return uN(2); } uint64_t u32() { return uN(4); } uint64_t u64() { return uN(8); }
    Bytes raw(size_t n) { if (left() < n) { fail = true; p = e; return {}; } Bytes r(p, p + n); p += n; return r; }
};

static const uint8_t MAGIC[8] = {'O', 'V', 'M', 'B', 0x0a, 0x0d, 0x0a, 0xff};

// fixed element size of a property type in a PROP chunk (0: variable = s32, -1: bool bit-packed, -2 unknown)
inline int type_size(const std::string &t) {
    static const std::map<std::string, int> m = {{"b", -1}, {"u8", 1}, {"u16", 2}, {"u32", 4}, {"u64", 8}, {"i8", 1}, {"i16", 2}, {"i32", 4}, {"i64", 8},
        {"f", 4}, {"d", 8}, {"s32", 0}, {"vh", 4}, {"eh", 4}, {"heh", 4}, {"fh", 4}, {"hfh", 4}, {"ch", 4}, {"2d", 16}, {"3d", 24}, {"4d", 32}, {"2f", 8},
        {"3f", 12}, {"4f", 16}, {"2u32", 8}, {"3u32", 12}, {"4u32", 16}, {"2i32", 8}, {"3i32", 12}, {"4i32", 16}};
    auto it = m.find(t);
    return it == m.end() ? -2 : it->second;
}

// ------------------------------------------------------------------------------------------------ encoder
struct EncOpt {
    int vert_enc = 2;                 // 1 float (only if exactly representable), 2 double
    int wE = 0, wF = 0, wC = 0;       // handle widths (0 = minimal)
    int wVal = 0;                     // valence width for variable valence (0 = minimal)
    std::vector<size_t> cutV, cutE, cutF, cutC, cutP;  // split points (indices) of VERT / EDGE / FACE / CELL chunks and of every PROP chunk
    bool min_offset = false;          // handle_offset = min handle of the chunk instead of 0
    bool force_variable = false;      // variable valence even where all valences agree
    int unknown_at = -1;              // insert one optional unknown chunk before chunk #unknown_at
    bool dirp_late = false;           // DIRP after the topology instead of first
    bool props_interleaved = false;   // PROP chunks of an entity kind directly after its topology chunk
    // negative tests ("semantic mutants"): one field of the chunks of one kind is overridden with a literal byte and the payload is
    // written CONSISTENTLY with it (elem size 0 for None / invalid encodings, truncated values for too narrow ones)
    int bad_entity = 0;               // 1..3: TOPO chunks of that entity get the overrides below
    int bad_henc = -1;                // literal handle_encoding byte
    int bad_venc = -1;                // literal valence_encoding byte
    int bad_vertenc = -1;             // literal vertex encoding byte of every VERT chunk
    std::string str() const {
        auto v = [](const std::vector<size_t> &c) { std::string s; for (size_t x : c) s += std::to_string(x) + "."; return s; };
        return "ve" + std::to_string(vert_enc) + " w" + std::to_string(wE) + std::to_string(wF) + std::to_string(wC) + " wv" + std::to_string(wVal) + " cutV" + v(cutV) + " cutE" + v(cutE) +
               " cutF" + v(cutF) + " cutC" + v(cutC) + " cutP" + v(cutP) + (min_offset ? " minoff" : "") + (force_variable ? " var" : "") + " unk" + std::to_string(unknown_at) +
               (dirp_late ? " dirplate" : "") + (props_interleaved ? " inter" : "") +
               (bad_entity || bad_vertenc >= 0 ? " bad" + std::to_string(bad_entity) + ":" + std::to_string(bad_henc) + ":" + std::to_string(bad_venc) + ":" + std::to_string(bad_vertenc) : "");
    }
};
inline int min_width(uint64_t maxv) { return maxv <= 255 ? 1 : maxv <= 65535 ? 2 : 4; }

inline void put_chunk(LW &out, const char *type, const Bytes &payload, int flags = 1) {
    size_t padded = (payload.size() + 7) & ~size_t(7);
    out.str(std::string(type, 4));
    out.u8(0); out.u8(padded - payload.size()); out.u8(0); out.u8(flags);
    out.u64(padded);
    out.raw(payload);
    for (size_t i = payload.size(); i < padded; ++i) out.u8(0);
}
inline std::vector<std::pair<size_t, size_t>> spans(size_t n, std::vector<size_t> cuts) {
    std::vector<std::pair<size_t, size_t>> r;
    cuts.erase(std::remove_if(cuts.begin(), cuts.end(), [&](size_t c) { return c == 0 || c >= n; }), cuts.end());
    std::sort(cuts.begin(), cuts.end());
    cuts.erase(std::unique(cuts.begin(), cuts.end()), cuts.end());
    size_t a = 0;
    for (size_t c : cuts) { r.push_back({a, c}); a = c; }
    if (n > a) r.push_back({a, n});
    return r;
}

inline size_t n_of_entity(const MeshD &m, int pe) {
    switch (pe) { case 0: return m.pos.size(); case 1: return m.edges.size(); case 2: return m.faces.size(); case 3: return m.cells.size();
                  case 4: return 2 * m.edges.size(); case 5: return 2 * m.faces.size(); default: return 1; }
}

inline Bytes ref_encode(const MeshD &m, const EncOpt &o) {
    std::vector<std::pair<std::string, Bytes>> chunks;  // (type, payload) in file order
    auto topo_chunks = [&](int entity, const std::vector<std::vector<int>> &lists, const std::vector<size_t> &cut, int width, size_t nsub) {
        for (auto sp : spans(lists.size(), cut)) {
            LW w;
            w.u64(sp.first); w.u32(sp.second - sp.first);
            size_t v0 = lists[sp.first].size();
            bool fixed = !o.force_variable && v0 > 0 && v0 <= 255;
            uint64_t minh = ~0ull, maxh = 0, maxval = 0;
            for (size_t i = sp.first; i < sp.second; ++i) {
                if (lists[i].size() != v0) fixed = false;
                maxval = std::max<uint64_t>(maxval, lists[i].size());
                for (int h : lists[i]) { minh = std::min<uint64_t>(minh, h); maxh = std::max<uint64_t>(maxh, h); }
            }
            if (entity == 1) fixed = true;
            uint64_t off = (o.min_offset && minh != ~0ull) ? minh : 0;
            int hw = std::max(width, min_width(maxh - off));
            (void)nsub;
            int vw = std::max(o.wVal, min_width(maxval));
            auto esz = [](int b) { return b == 1 || b == 2 || b == 4 ? b : 0; };
            int hbyte = hw, vbyte = fixed ? 0 : vw;
            if (entity == o.bad_entity && o.bad_henc >= 0) { hbyte = o.bad_henc; hw = esz(hbyte); }
            if (entity == o.bad_entity && o.bad_venc >= 0) { vbyte = o.bad_venc; vw = esz(vbyte); }
            w.u8(entity); w.u8(fixed ? v0 : 0); w.u8(vbyte); w.u8(hbyte);
            w.u64(off);
            if (!fixed) for (size_t i = sp.first; i < sp.second; ++i) w.uN(vw, lists[i].size());
            for (size_t i = sp.first; i < sp.second; ++i) for (int h : lists[i]) w.uN(hw, (uint64_t)h - off);
            chunks.push_back({"TOPO", w.b});
        }
    };
    auto prop_chunks = [&](size_t idx) {
        const PropD &p = m.props[idx];
        for (auto sp : spans(p.vals.size(), o.cutP)) {
            LW w;
            w.u64(sp.first); w.u32(sp.second - sp.first); w.u32(idx);
            if (p.type == "b") {
                for (size_t i = sp.first; i < sp.second; i += 8) { uint8_t byte = 0; for (size_t k = 0; k < 8 && i + k < sp.second; ++k) if (p.vals[i + k][0]) byte |= 1u << k; w.u8(byte); }
            } else for (size_t i = sp.first; i < sp.second; ++i) w.raw(p.vals[i]);
            chunks.push_back({"PROP", w.b});
        }
    };
    LW dirp;
    for (auto &p : m.props) { dirp.u8(p.entity); dirp.u32(p.name.size()); dirp.str(p.name); dirp.u32(p.type.size()); dirp.str(p.type); dirp.u32(p.def.size()); dirp.raw(p.def); }
    if (!m.props.empty() && !o.dirp_late) chunks.push_back({"DIRP", dirp.b});
    for (auto sp : spans(m.pos.size(), o.cutV)) {
        LW w;
        int venc = o.bad_vertenc >= 0 ? o.bad_vertenc : o.vert_enc;
        w.u64(sp.first); w.u32(sp.second - sp.first); w.u8(venc); w.u8(0); w.u8(0); w.u8(0);
        for (size_t i = sp.first; i < sp.second; ++i) for (int k = 0; k < 3; ++k) { if (venc == 1) w.f32((float)m.pos[i][k]); else if (venc == 2) w.f64(m.pos[i][k]); }
        chunks.push_back({"VERT", w.b});
    }
    std::vector<std::vector<int>> el;
    for (auto &e : m.edges) el.push_back({e[0], e[1]});
    auto props_of = [&](std::initializer_list<int> ents) { if (o.dirp_late || !o.props_interleaved) return; for (size_t i = 0; i < m.props.size(); ++i) for (int e : ents) if (m.props[i].entity == e) prop_chunks(i); };
    props_of({0, 6});
    topo_chunks(1, el, o.cutE, o.wE, m.pos.size());
    props_of({1, 4});
    topo_chunks(2, m.faces, o.cutF, o.wF, 2 * m.edges.size());
    props_of({2, 5});
    topo_chunks(3, m.cells, o.cutC, o.wC, 2 * m.faces.size());
    props_of({3});
    if (!m.props.empty() && o.dirp_late) chunks.push_back({"DIRP", dirp.b});
    if (o.dirp_late || !o.props_interleaved) for (size_t i = 0; i < m.props.size(); ++i) prop_chunks(i);
    LW out;
    out.raw(Bytes(MAGIC, MAGIC + 8));
    out.u8(1); out.u8(1); out.u8(3); out.u8(m.topo); out.u32(0);
    out.u64(m.pos.size()); out.u64(m.edges.size()); out.u64(m.faces.size()); out.u64(m.cells.size());
    int ci = 0;
    for (auto &c : chunks) {
        if (ci == o.unknown_at) put_chunk(out, "XTRA", Bytes{1, 2, 3, 4, 5}, 0);
        put_chunk(out, c.first.c_str(), c.second, 1);
        ++ci;
    }
    if (o.unknown_at >= ci) put_chunk(out, "XTRA", Bytes{9, 9}, 0);
    put_chunk(out, "EOF ", {}, 1);
    return out.b;
}

// ------------------------------------------------------------------------------------------------ decoder / classifier
struct Dec {
    enum Cls { ACCEPT, REJECT, UNSPEC } cls = ACCEPT;
    std::string rule;
    MeshD mesh;
};
struct ChunkPos { size_t off, hdr_end, payload_end, end; std::string type; };

// chunk framing only (used by the mutation operators): offsets of every chunk of a well-framed file
inline std::vector<ChunkPos> walk_chunks(const Bytes &b) {
    std::vector<ChunkPos> r;
    size_t p = 48;
    while (p + 16 <= b.size()) {
        uint64_t len = 0;
        for (int i = 0; i < 8; ++i) len |= (uint64_t)b[p + 8 + i] << (8 * i);
        uint8_t pad = b[p + 5];
        if (len > b.size() - p - 16 || pad > len) break;
        r.push_back({p, p + 16, p + 16 + (size_t)len - pad, p + 16 + (size_t)len, std::string((const char *)&b[p], 4)});
        p += 16 + (size_t)len;
    }
    return r;
}

inline Dec ref_decode(const Bytes &b) {
    Dec d;
    auto rej = [&](const std::string &r) { d.cls = Dec::REJECT; d.rule = r; return d; };
    auto uns = [&](const std::string &r) { d.cls = Dec::UNSPEC; d.rule = r; return d; };
    if (b.size() < 48) return rej("truncated:file-header");
    if (std::memcmp(b.data(), MAGIC, 8) != 0) return rej("magic");
    LR r{b.data() + 8, b.data() + b.size()};
    uint64_t file_version = r.u8(), header_version = r.u8(), dim = r.u8(), topo = r.u8(), reserved = r.u32();
    uint64_t nV = r.u64(), nE = r.u64(), nF = r.u64(), nC = r.u64();
    if (header_version != 1) return rej("header-version");
    if (reserved != 0) return rej("reserved-not-zero");
    if (topo > 2) return rej("topo-type");
    if (file_version != 1) return uns("file-version");
    if (dim != 3) return uns("vertex-dim");
    if (nV > (1u << 24) || nE > (1u << 24) || nF > (1u << 24) || nC > (1u << 24)) return uns("huge-counts");  // decided on counts vs content by the caller's size
    d.mesh.topo = (int)topo;
    d.mesh.pos.assign((size_t)nV, {0, 0, 0});
    size_t vread = 0, eread = 0, fread = 0, cread = 0;
    bool have_dirp = false, eof_seen = false, unspec = false;
    std::string unspec_rule;
    std::vector<bool> prop_known;
    while (r.left() > 0) {
        if (eof_seen) return rej("chunk-after-eof");
        if (r.left() < 16) return rej("truncated:chunk-header");
        std::string type((const char *)r.p, 4);
        r.p += 4;
        uint64_t version = r.u8(), pad = r.u8(), compression = r.u8(), flags = r.u8(), len = r.u64();
        if (pad > len) return rej("padding-exceeds-length");
        if (len > r.left()) return rej("chunk-length-exceeds-file");
        if (flags > 1) return uns("unknown-chunk-flags");
        if (compression != 0) return uns("compression");
        LR c{r.p, r.p + (len - pad)};
        const uint8_t *padp = r.p + (len - pad);
        r.p += len;
        bool known = type == "VERT" || type == "TOPO" || type == "DIRP" || type == "PROP" || type == "EOF ";
        if (version != 0) { if (flags & 1) return rej("mandatory-chunk-version"); goto padding; }
        if (!known) { if (flags & 1) return rej("mandatory-unknown-chunk"); goto padding; }
        if (type == "EOF ") {
            if (c.left() != 0) return rej("eof-with-payload");
            eof_seen = true;
        } else if (type == "VERT") {
            if (c.left() < 16) return rej("truncated:vert-header");
            uint64_t first = c.u64(), count = c.u32(), enc = c.u8();
            uint64_t res = c.u8() | c.u8() | c.u8();
            if (enc > 2) return rej("vertex-encoding");
            if (res != 0) return rej("reserved-not-zero");
            if (first != vread) return rej("span-start");
            if (count > nV - vread) return rej("span-exceeds-total");
            if (enc == 0) {  // topology-only span: no coordinates; the span rules above still apply, what the positions are is left open
                if (c.left() != 0) return rej("vert-payload-size");
                vread += count; unspec = true; unspec_rule = "vertex-encoding-none";
                goto padding;
            }
            size_t es = enc == 1 ? 4 : 8;
            if (c.left() != count * 3 * es) return rej("vert-payload-size");
            for (uint64_t i = 0; i < count; ++i) for (int k = 0; k < 3; ++k) {
                if (enc == 1) { uint32_t t = (uint32_t)c.u32(); float f; std::memcpy(&f, &t, 4); d.mesh.pos[vread + i][k] = f; }
                else { uint64_t t = c.u64(); double f; std::memcpy(&f, &t, 8); d.mesh.pos[vread + i][k] = f; }
            }
            vread += count;
        } else if (type == "TOPO") {
            if (c.left() < 24) return rej("truncated:topo-header");
            uint64_t first = c.u64(), count = c.u32(), entity = c.u8(), valence = c.u8(), venc = c.u8(), henc = c.u8(), off = c.u64();
            if (entity < 1 || entity > 3) return rej("topo-entity");
            auto okenc = [](uint64_t e) { return e == 0 || e == 1 || e == 2 || e == 4; };
            if (!okenc(venc) || !okenc(henc)) return rej("int-encoding");
            if (henc == 0) return rej("handle-encoding-none");
            if (count == 0) return uns("empty-topo-chunk");
            if (valence != 0 && venc != 0) return uns("valence-encoding-with-fixed-valence");
            if (valence == 0 && venc == 0) return rej("variable-valence-without-encoding");
            if (entity == 1 && valence != 2) return rej("edge-valence");
            size_t &rd = entity == 1 ? eread : entity == 2 ? fread : cread;
            uint64_t total = entity == 1 ? nE : entity == 2 ? nF : nC;
            if (first != rd) return rej("span-start");
            if (count > total - rd) return rej("span-exceeds-total");
            if (topo != 0 && valence == 0) { unspec = true; unspec_rule = "variable-valence-in-tet/hex-file"; }
            if (topo == 1 && entity == 2 && valence != 0 && valence != 3) return rej("tet-face-valence");
            if (topo == 1 && entity == 3 && valence != 0 && valence != 4) return rej("tet-cell-valence");
            if (topo == 2 && entity == 2 && valence != 0 && valence != 4) return rej("hex-face-valence");
            if (topo == 2 && entity == 3 && valence != 0 && valence != 6) return rej("hex-cell-valence");
            std::vector<uint64_t> vals(count, valence);
            if (valence == 0) { if (c.left() < count * venc) return rej("topo-payload-size"); for (auto &v : vals) v = c.uN((int)venc); }
            uint64_t sum = 0;
            for (auto v : vals) sum += v;
            if (c.left() != sum * henc) return rej("topo-payload-size");
            uint64_t limit = entity == 1 ? vread : entity == 2 ? 2 * eread : 2 * fread;
            for (uint64_t i = 0; i < count; ++i) {
                std::vector<int> l;
                for (uint64_t k = 0; k < vals[i]; ++k) { uint64_t h = c.uN((int)henc) + off; if (h >= limit) return rej("handle-out-of-range"); l.push_back((int)h); }
                if (entity == 1) d.mesh.edges.push_back({l[0], l[1]});
                else if (entity == 2) { if (l.empty()) { unspec = true; unspec_rule = "face-of-valence-0"; } d.mesh.faces.push_back(l); }
                else { if (l.empty()) { unspec = true; unspec_rule = "cell-of-valence-0"; } d.mesh.cells.push_back(l); }
            }
            rd += count;
        } else if (type == "DIRP") {
            if (have_dirp) return rej("second-property-directory");
            have_dirp = true;
            while (c.left() > 0) {
                PropD p;
                p.entity = (int)c.u8();
                uint64_t n1 = c.u32(); Bytes nm = c.raw(n1);
                uint64_t n2 = c.u32(); Bytes ty = c.raw(n2);
                uint64_t n3 = c.u32(); p.def = c.raw(n3);
                if (c.fail) return rej("truncated:propdir-entry");
                if (p.entity > 6) return rej("property-entity");
                p.name.assign(nm.begin(), nm.end()); p.type.assign(ty.begin(), ty.end());
                int ts = type_size(p.type);
                prop_known.push_back(ts != -2);
                if (ts > 0 && (int)p.def.size() != ts) return rej("serialized-default-size");
                if (ts == -1 && (p.def.size() != 1 || p.def[0] > 1)) return rej("serialized-default-size");
                if (ts == 0) { if (p.def.size() < 4) return rej("serialized-default-size"); uint32_t l; std::memcpy(&l, p.def.data(), 4); if (p.def.size() != 4 + (size_t)l) return rej("serialized-default-size"); }
                if (p.name.empty()) { unspec = true; unspec_rule = "anonymous-property"; }
                d.mesh.props.push_back(p);
            }
            // properties are sized lazily below (entity counts are only known once the topology has been read)
        } else if (type == "PROP") {
            if (c.left() < 16) return rej("truncated:prop-header");
            uint64_t first = c.u64(), count = c.u32(), idx = c.u32();
            if (idx >= d.mesh.props.size()) return rej("property-index");
            PropD &p = d.mesh.props[idx];
            if (!prop_known[idx]) goto padding;
            size_t n = p.entity == 0 ? vread : p.entity == 1 ? eread : p.entity == 2 ? fread : p.entity == 3 ? cread : p.entity == 4 ? 2 * eread : p.entity == 5 ? 2 * fread : 1;
            if (count == 0) { if (c.left() != 0) return uns("empty-prop-chunk-with-data"); goto padding; }
            if (first >= n || count > n - first) return rej("property-span");
            if (p.vals.size() < n) p.vals.resize(n, p.type == "b" ? Bytes{p.def[0]} : p.def);
            int ts = type_size(p.type);
            if (ts > 0) { if (c.left() != count * (size_t)ts) return rej("prop-payload-size"); for (uint64_t i = 0; i < count; ++i) p.vals[first + i] = c.raw(ts); }
            else if (ts == -1) {
                if (c.left() != (count + 7) / 8) return rej("prop-payload-size");
                for (uint64_t i = 0; i < count; i += 8) { uint8_t byte = (uint8_t)c.u8(); for (uint64_t k = 0; k < 8 && i + k < count; ++k) p.vals[first + i + k] = Bytes{(uint8_t)((byte >> k) & 1)}; }
            } else {
                for (uint64_t i = 0; i < count; ++i) { if (c.left() < 4) return rej("prop-payload-size"); uint32_t l; std::memcpy(&l, c.p, 4); if (c.left() < 4 + (size_t)l) return rej("prop-payload-size"); p.vals[first + i] = c.raw(4 + (size_t)l); }
                if (c.left() != 0) return rej("prop-payload-size");
            }
        }
    padding:
        for (uint64_t i = 0; i < pad; ++i) if (padp[i] != 0) return rej("padding-not-zero");
    }
    if (!eof_seen) return rej("missing-eof-chunk");
    if (vread != nV) { if (vread == 0) return uns("no-vertex-chunk"); return uns("vertex-chunks-do-not-cover-all-vertices"); }
    if (eread != nE || fread != nF || cread != nC) return rej("entity-totals");
    for (size_t i = 0; i < d.mesh.props.size(); ++i) {
        PropD &p = d.mesh.props[i];
        if (!prop_known[i]) { unspec = true; unspec_rule = "unknown-property-type"; continue; }
        size_t n = n_of_entity(d.mesh, p.entity);
        if (p.vals.size() < n) p.vals.resize(n, p.type == "b" ? Bytes{p.def[0]} : p.def);
    }
    for (size_t i = 0; i < d.mesh.props.size(); ++i) for (size_t j = i + 1; j < d.mesh.props.size(); ++j)
        if (d.mesh.props[i].entity == d.mesh.props[j].entity && d.mesh.props[i].name == d.mesh.props[j].name && d.mesh.props[i].type == d.mesh.props[j].type) { unspec = true; unspec_rule = "duplicate-directory-entry"; }
    if (unspec) return uns(unspec_rule);
    std::sort(d.mesh.props.begin(), d.mesh.props.end(), [](const PropD &x, const PropD &y) { return std::tie(x.entity, x.name, x.type) < std::tie(y.entity, y.name, y.type); });
    return d;
}

}  // namespace io
