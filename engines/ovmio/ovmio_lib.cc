// Library shim of engine E3: the only translation unit that instantiates the OpenVolumeMesh IO templates.
#include "ovmio.hh"

#include <OpenVolumeMesh/FileManager/FileManager.hh>
#include <OpenVolumeMesh/IO/IO.hh>
#include <OpenVolumeMesh/IO/ovmb_write.hh>
#include <OpenVolumeMesh/Mesh/HexahedralMesh.hh>
#include <OpenVolumeMesh/Mesh/PolyhedralMesh.hh>
#include <OpenVolumeMesh/Mesh/TetrahedralMesh.hh>

#include <algorithm>
#include <cmath>
#include <cstring>
#include <fstream>
#include <limits>
#include <sstream>
#include <streambuf>
#include <unistd.h>

namespace io {
using namespace OpenVolumeMesh;
using Geometry::VectorT;
using Vec3d = Geometry::Vec3d;
using PolyM = GeometryKernel<Vec3d, TopologyKernel>;
using TetM = GeometryKernel<Vec3d, TetrahedralMeshTopologyKernel>;
using HexM = GeometryKernel<Vec3d, HexahedralMeshTopologyKernel>;

// ---------------------------------------------------------------- harness-side single-value codecs (independent of IO/detail)
template <class T, class = void> struct VC;
template <class T> struct VC<T, std::enable_if_t<std::is_arithmetic_v<T> && !std::is_same_v<T, bool>>> {
    static Bytes enc(const T &v) { Bytes b(sizeof(T)); std::memcpy(b.data(), &v, sizeof(T)); return b; }
    static bool dec(const uint8_t *&p, const uint8_t *e, T &v) { if ((size_t)(e - p) < sizeof(T)) return false; std::memcpy(&v, p, sizeof(T)); p += sizeof(T); return true; }
};
template <> struct VC<bool> {
    static Bytes enc(const bool &v) { return Bytes{(uint8_t)(v ? 1 : 0)}; }
    static bool dec(const uint8_t *&p, const uint8_t *e, bool &v) { if (p >= e) return false; v = *p++ != 0; return true; }
};
template <> struct VC<std::string> {
    static Bytes enc(const std::string &v) { uint32_t n = (uint32_t)v.size(); Bytes b(4 + n); std::memcpy(b.data(), &n, 4); std::memcpy(b.data() + 4, v.data(), n); return b; }
    static bool dec(const uint8_t *&p, const uint8_t *e, std::string &v) { uint32_t n; if (e - p < 4) return false; std::memcpy(&n, p, 4); p += 4; if ((size_t)(e - p) < n) return false; v.assign((const char *)p, n); p += n; return true; }
};
template <class H> struct VC<H, std::enable_if_t<is_handle_v<H>>> {
    static Bytes enc(const H &v) { int32_t i = v.idx(); return VC<int32_t>::enc(i); }
    static bool dec(const uint8_t *&p, const uint8_t *e, H &v) { int32_t i; if (!VC<int32_t>::dec(p, e, i)) return false; v = H(i); return true; }
};
template <class S, int N> struct VC<VectorT<S, N>> {
    static Bytes enc(const VectorT<S, N> &v) { Bytes b; for (int i = 0; i < N; ++i) { auto c = VC<S>::enc(v[i]); b.insert(b.end(), c.begin(), c.end()); } return b; }
    static bool dec(const uint8_t *&p, const uint8_t *e, VectorT<S, N> &v) { for (int i = 0; i < N; ++i) if (!VC<S>::dec(p, e, v[i])) return false; return true; }
};
template <class T> T dec_all(const Bytes &b) { T v{}; const uint8_t *p = b.data(); VC<T>::dec(p, b.data() + b.size(), v); return v; }

// ---------------------------------------------------------------- type table (OVMB codec name -> C++ type)
using V2d = VectorT<double, 2>; using V3d = VectorT<double, 3>; using V4d = VectorT<double, 4>;
using V2f = VectorT<float, 2>; using V3f = VectorT<float, 3>; using V4f = VectorT<float, 4>;
using V2u = VectorT<uint32_t, 2>; using V3u = VectorT<uint32_t, 3>; using V4u = VectorT<uint32_t, 4>;
using V2i = VectorT<int32_t, 2>; using V3i = VectorT<int32_t, 3>; using V4i = VectorT<int32_t, 4>;
#define OVMIO_TYPES(X)                                                                                                          \
    X("b", bool) X("u8", uint8_t) X("u16", uint16_t) X("u32", uint32_t) X("u64", uint64_t) X("i8", int8_t) X("i16", int16_t)      \
    X("i32", int32_t) X("i64", int64_t) X("f", float) X("d", double) X("s32", std::string) X("vh", VH) X("eh", EH) X("heh", HEH) \
    X("fh", FH) X("hfh", HFH) X("ch", CH) X("2d", V2d) X("3d", V3d) X("4d", V4d) X("2f", V2f) X("3f", V3f) X("4f", V4f)          \
    X("2u32", V2u) X("3u32", V3u) X("4u32", V4u) X("2i32", V2i) X("3i32", V3i) X("4i32", V4i)

template <class F> bool with_type(const std::string &name, F f) {
#define X(n, T) if (name == n) { f(T{}); return true; }
    OVMIO_TYPES(X)
#undef X
    return false;
}
std::vector<std::string> lib_type_names() {
    std::vector<std::string> r;
#define X(n, T) r.push_back(n);
    OVMIO_TYPES(X)
#undef X
    return r;
}
template <class F> void for_all_types(F f) {
#define X(n, T) f(std::string(n), T{});
    OVMIO_TYPES(X)
#undef X
}

template <class T> std::vector<T> alphabet() {
    if constexpr (std::is_same_v<T, bool>) return {false, true};
    else if constexpr (std::is_same_v<T, float>) { float nanp; uint32_t bits = 0x7fc00001u; std::memcpy(&nanp, &bits, 4); return {0.f, -0.f, 1.5f, std::numeric_limits<float>::denorm_min(), std::numeric_limits<float>::max(), -std::numeric_limits<float>::infinity(), nanp}; }
    else if constexpr (std::is_same_v<T, double>) { double nanp; uint64_t bits = 0x7ff8000000000123ull; std::memcpy(&nanp, &bits, 8); return {0., -0., 1.0 / 3.0, std::numeric_limits<double>::denorm_min(), std::numeric_limits<double>::max(), std::numeric_limits<double>::infinity(), nanp}; }
    else if constexpr (std::is_integral_v<T>) return {T(0), T(1), std::numeric_limits<T>::min(), std::numeric_limits<T>::max(), T(T(0x0102030405060708ull))};
    else if constexpr (std::is_same_v<T, std::string>) return {"", "a", "hello world", "two\nlines", std::string("nul\0in", 6), "\"quoted\" #hash"};
    else if constexpr (is_handle_v<T>) return {T(-1), T(0), T(5), T(70000)};
    else {  // VectorT
        using S = typename T::value_type;
        auto a = alphabet<S>();
        std::vector<T> r;
        for (size_t i = 0; i < a.size(); ++i) { T v; for (int k = 0; k < T::dim(); ++k) v[k] = a[(i + k) % a.size()]; r.push_back(v); }
        return r;
    }
}
std::vector<Bytes> lib_value_alphabet(const std::string &type) {
    std::vector<Bytes> r;
    with_type(type, [&](auto tag) { using T = decltype(tag); for (T v : alphabet<T>()) r.push_back(VC<T>::enc(v)); });
    return r;
}

static EntityType ent_of(int pe) {
    switch (pe) { case 0: return EntityType::Vertex; case 1: return EntityType::Edge; case 2: return EntityType::Face; case 3: return EntityType::Cell;
                  case 4: return EntityType::HalfEdge; case 5: return EntityType::HalfFace; default: return EntityType::Mesh; }
}
static int pe_of(EntityType e) {
    switch (e) { case EntityType::Vertex: return 0; case EntityType::Edge: return 1; case EntityType::Face: return 2; case EntityType::Cell: return 3;
                 case EntityType::HalfEdge: return 4; case EntityType::HalfFace: return 5; default: return 6; }
}

// ---------------------------------------------------------------- MeshD -> library mesh
template <class MeshT> void build(MeshT &m, const MeshD &d) {
    for (auto &p : d.pos) m.add_vertex(Vec3d(p[0], p[1], p[2]));
    for (auto &e : d.edges) m.add_edge(VertexHandle(e[0]), VertexHandle(e[1]), true);
    for (auto &f : d.faces) { std::vector<HalfEdgeHandle> h; for (int x : f) h.push_back(HalfEdgeHandle(x)); m.TopologyKernel::add_face(h, false); }
    for (auto &c : d.cells) { std::vector<HalfFaceHandle> h; for (int x : c) h.push_back(HalfFaceHandle(x)); m.TopologyKernel::add_cell(h, false); }
    for (auto &p : d.props) {
        with_type(p.type, [&](auto tag) {
            using T = decltype(tag);
            entitytag_dispatch(ent_of(p.entity), [&](auto et) {
                using ET = decltype(et);
                auto prop = m.template request_property<T, ET>(p.name, dec_all<T>(p.def));
                m.set_persistent(prop);
                for (size_t i = 0; i < p.vals.size() && i < prop.size(); ++i) prop[HandleT<ET>((int)i)] = dec_all<T>(p.vals[i]);
            });
        });
    }
}

template <class MeshT> void apply_pending(MeshT &m, int pending) {
    if (!pending) return;
    m.enable_deferred_deletion(true);
    if (pending == 1 && m.n_cells()) m.delete_cell(CellHandle((int)m.n_cells() - 1));
    else if (pending == 2 && m.n_faces()) m.delete_face(FaceHandle(0));
    else if (pending == 3 && m.n_edges()) m.delete_edge(EdgeHandle(0));
    else if (m.n_vertices()) m.delete_vertex(VertexHandle((int)m.n_vertices() - 1));
}

// ---------------------------------------------------------------- library mesh -> MeshD (+ validity audit)
template <class MeshT> void dump(const MeshT &m, MeshD &d, std::string &audit) {
    std::ostringstream a;
    size_t nv = m.n_vertices(), ne = m.n_edges(), nf = m.n_faces(), nc = m.n_cells();
    const bool huge = nv > 300000 || ne > 300000 || nf > 300000 || nc > 300000;  // (mutated counts) audit sizes only, no value dump
    if (huge) {
        if (m.vertex_positions().size() != nv) a << "position property has " << m.vertex_positions().size() << " elements for " << nv << " vertices; ";
        const ResourceManager &rm0 = m;
        for (int et = 0; et < 7; ++et) {
            size_t n = et == 0 ? nv : et == 1 ? ne : et == 2 ? 2 * ne : et == 3 ? nf : et == 4 ? 2 * nf : et == 5 ? nc : 1;
            for (auto *p : rm0.storage_trackers_.get((EntityType)et)) if (p->size() != n) a << "property '" << p->name() << "' has " << p->size() << " elements for " << n << " entities; ";
        }
        for (size_t i = 0; i < ne; ++i) { auto &e = m.edge(EdgeHandle((int)i)); if ((size_t)e.from_vertex().idx() >= nv || (size_t)e.to_vertex().idx() >= nv) { a << "edge refers to a non-existing vertex; "; break; } }
        d.pos.resize(0);
        PropD marker; marker.name = "<mesh too large to dump>"; d.props.push_back(marker);
        audit = a.str();
        return;
    }
    if (m.vertex_positions().size() != nv) a << "position property has " << m.vertex_positions().size() << " elements for " << nv << " vertices; ";
    for (size_t i = 0; i < nv && i < m.vertex_positions().size(); ++i) { auto p = m.vertex(VertexHandle((int)i)); d.pos.push_back({p[0], p[1], p[2]}); }
    for (size_t i = 0; i < ne; ++i) {
        auto &e = m.edge(EdgeHandle((int)i));
        d.edges.push_back({e.from_vertex().idx(), e.to_vertex().idx()});
        if (e.from_vertex().idx() < 0 || (size_t)e.from_vertex().idx() >= nv || e.to_vertex().idx() < 0 || (size_t)e.to_vertex().idx() >= nv) a << "edge " << i << " refers to a non-existing vertex; ";
    }
    for (size_t i = 0; i < nf; ++i) {
        std::vector<int> l;
        for (auto h : m.face(FaceHandle((int)i)).halfedges()) { l.push_back(h.idx()); if (h.idx() < 0 || (size_t)h.idx() >= 2 * ne) a << "face " << i << " refers to a non-existing halfedge " << h.idx() << "; "; }
        d.faces.push_back(l);
    }
    for (size_t i = 0; i < nc; ++i) {
        std::vector<int> l;
        for (auto h : m.cell(CellHandle((int)i)).halffaces()) { l.push_back(h.idx()); if (h.idx() < 0 || (size_t)h.idx() >= 2 * nf) a << "cell " << i << " refers to a non-existing halfface " << h.idx() << "; "; }
        d.cells.push_back(l);
    }
    if (m.needs_garbage_collection()) a << "mesh has pending deletions after a read; ";
    // every tracked property has one element per entity
    const ResourceManager &rm = m;
    for (int et = 0; et < 7; ++et) {
        size_t n = et == 0 ? nv : et == 1 ? ne : et == 2 ? 2 * ne : et == 3 ? nf : et == 4 ? 2 * nf : et == 5 ? nc : 1;
        for (auto *p : rm.storage_trackers_.get((EntityType)et))
            if (p->size() != n) a << "property '" << p->name() << "' has " << p->size() << " elements for " << n << " entities; ";
    }
    // persistent properties
    for_each_entity([&](auto et) {
        using ET = decltype(et);
        for (auto it = m.template persistent_props_begin<ET>(); it != m.template persistent_props_end<ET>(); ++it) {
            PropertyStorageBase *pb = *it;
            bool known = false;
            for_all_types([&](const std::string &tn, auto tag) {
                using T = decltype(tag);
                if (known || OpenVolumeMesh::detail::internal_type_name<T>() != pb->internal_type_name()) return;
                known = true;
                auto *st = static_cast<PropertyStorageT<T> *>(pb);
                PropD p;
                p.entity = pe_of(ET::type()); p.name = pb->name(); p.type = tn; p.def = VC<T>::enc(st->def());
                for (size_t i = 0; i < st->size(); ++i) { T v = st->data_vector()[i]; p.vals.push_back(VC<T>::enc(v)); }
                d.props.push_back(p);
            });
            if (!known) { PropD p; p.entity = pe_of(ET::type()); p.name = pb->name(); p.type = "?" + pb->internal_type_name(); d.props.push_back(p); }
        }
    });
    std::sort(d.props.begin(), d.props.end(), [](const PropD &x, const PropD &y) { return std::tie(x.entity, x.name, x.type) < std::tie(y.entity, y.name, y.type); });
    audit = a.str();
}

// ---------------------------------------------------------------- fault-injecting stream buffers
class FailingInBuf : public std::streambuf {
public:
    FailingInBuf(const std::string &d, long fail_at) : d_(d), k_(fail_at < 0 ? (long)d.size() : std::min<long>(fail_at, (long)d.size())) {}
protected:
    std::streamsize xsgetn(char *s, std::streamsize n) override {
        std::streamsize can = std::max<std::streamsize>(0, std::min<std::streamsize>(n, k_ - pos_));
        if (can > 0) { std::memcpy(s, d_.data() + pos_, (size_t)can); pos_ += can; }
        return can;
    }
    int_type underflow() override { if (pos_ >= k_) return traits_type::eof(); ch_ = d_[(size_t)pos_]; setg(&ch_, &ch_, &ch_ + 1); return traits_type::to_int_type(ch_); }
    int_type uflow() override { if (pos_ >= k_) return traits_type::eof(); return traits_type::to_int_type(d_[(size_t)pos_++]); }
    pos_type seekoff(off_type off, std::ios_base::seekdir dir, std::ios_base::openmode) override {
        long base = dir == std::ios_base::beg ? 0 : dir == std::ios_base::cur ? pos_ : (long)d_.size();
        long np = base + (long)off;
        if (np < 0 || np > (long)d_.size()) return pos_type(off_type(-1));
        pos_ = np; setg(nullptr, nullptr, nullptr);
        return pos_type(pos_);
    }
    pos_type seekpos(pos_type p, std::ios_base::openmode m) override { return seekoff(off_type(p), std::ios_base::beg, m); }
private:
    const std::string &d_;
    long k_, pos_ = 0;
    char ch_ = 0;
};
class FailingOutBuf : public std::streambuf {
public:
    explicit FailingOutBuf(long fail_at) : k_(fail_at) {}
    std::string out;
protected:
    std::streamsize xsputn(const char *s, std::streamsize n) override {
        std::streamsize can = k_ < 0 ? n : std::max<std::streamsize>(0, std::min<std::streamsize>(n, k_ - (long)out.size()));
        out.append(s, (size_t)can);
        return can;
    }
    int_type overflow(int_type c) override {
        if (k_ >= 0 && (long)out.size() >= k_) return traits_type::eof();
        if (c != traits_type::eof()) out.push_back((char)c);
        return c;
    }
private:
    long k_;
};

// ---------------------------------------------------------------- entry points
template <class F> auto with_kernel(int kernel, F f) {
    if (kernel == K_TET) { TetM m; return f(m); }
    if (kernel == K_HEX) { HexM m; return f(m); }
    PolyM m;
    return f(m);
}

WriteOut lib_ovmb_write(const MeshD &d, int kernel, int topo_option, int pending, long fail_at) {
    return with_kernel(kernel, [&](auto &m) {
        WriteOut w;
        build(m, d);
        apply_pending(m, pending);
        IO::WriteOptions opt;
        if (topo_option == 0) opt.topology_type = IO::WriteOptions::TopologyType::Polyhedral;
        if (topo_option == 1) opt.topology_type = IO::WriteOptions::TopologyType::Tetrahedral;
        if (topo_option == 2) opt.topology_type = IO::WriteOptions::TopologyType::Hexahedral;
        FailingOutBuf buf(fail_at);
        std::ostream os(&buf);
        try { auto r = IO::ovmb_write(os, m, opt); w.result = (int)r; w.ok = r == IO::WriteResult::Ok; }
        catch (std::exception &e) { w.threw = true; w.what = e.what(); }
        w.bytes = buf.out;
        return w;
    });
}

WriteOut lib_ascii_write(const MeshD &d, int kernel, int pending) {
    return with_kernel(kernel, [&](auto &m) {
        WriteOut w;
        build(m, d);
        apply_pending(m, pending);
        std::ostringstream os;
        IO::FileManager fm;
        fm.setVerbosityLevel(0);
        try { fm.writeStream(os, m); w.ok = os.good(); w.result = os.good(); }
        catch (std::exception &e) { w.threw = true; w.what = e.what(); }
        w.bytes = os.str();
        return w;
    });
}

ReadOut lib_ovmb_read(const std::string &bytes, int kernel, bool topo_check, bool bu, long fail_at) {
    return with_kernel(kernel, [&](auto &m) {
        ReadOut r;
        FailingInBuf buf(bytes, fail_at);
        std::istream is(&buf);
        IO::ReadOptions opt;
        opt.topology_check = topo_check;
        opt.bottom_up_incidences = bu;
        try { auto res = IO::ovmb_read(is, m, opt); r.result = (int)res; r.ok = res == IO::ReadResult::Ok; }
        catch (std::exception &e) { r.threw = true; r.what = e.what(); }
        if (r.ok) dump(m, r.mesh, r.audit);
        return r;
    });
}

ReadOut lib_ascii_read(const std::string &text, int kernel, bool topo_check, bool bu) {
    return with_kernel(kernel, [&](auto &m) {
        ReadOut r;
        std::istringstream is(text);
        IO::FileManager fm;
        fm.setVerbosityLevel(0);
        try { bool ok = fm.readStream(is, m, topo_check, bu); r.result = ok; r.ok = ok; }
        catch (std::exception &e) { r.threw = true; r.what = e.what(); }
        if (r.ok) dump(m, r.mesh, r.audit);
        return r;
    });
}

ReadOut lib_read_file(const std::string &bytes, bool binary, int kernel, bool topo_check, bool bu) {
    std::string path = "/tmp/ovmio_" + std::to_string(getpid()) + (binary ? ".ovmb" : ".ovm");
    { std::ofstream f(path, std::ios::binary); f.write(bytes.data(), (std::streamsize)bytes.size()); }
    auto r = with_kernel(kernel, [&](auto &m) {
        ReadOut r;
        try { bool ok = IO::read_file(path, m, topo_check, bu); r.result = ok; r.ok = ok; }
        catch (std::exception &e) { r.threw = true; r.what = e.what(); }
        if (r.ok) dump(m, r.mesh, r.audit);
        return r;
    });
    unlink(path.c_str());
    return r;
}

int lib_detect(const std::string &text) {
    std::string path = "/tmp/ovmio_det_" + std::to_string(getpid()) + ".ovm";
    { std::ofstream f(path, std::ios::binary); f.write(text.data(), (std::streamsize)text.size()); }
    IO::FileManager fm;
    fm.setVerbosityLevel(0);
    int r = fm.isTetrahedralMesh(path) ? 1 : fm.isHexahedralMesh(path) ? 2 : 0;
    unlink(path.c_str());
    return r;
}

MeshD lib_logical_after_pending(const MeshD &d, int kernel, int pending) {
    return with_kernel(kernel, [&](auto &m) {
        build(m, d);
        apply_pending(m, pending);
        m.collect_garbage();
        MeshD o;
        std::string audit;
        dump(m, o, audit);
        o.topo = d.topo;
        return o;
    });
}

}  // namespace io
