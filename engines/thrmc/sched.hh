// Serialising scheduler for engine E5 (thrmc): exactly one worker runs at a time; every entry/exit of an instrumented
// function (-finstrument-functions) is a scheduling point at which the controller may have asked the worker to yield.
#pragma once
#include <functional>
#include <vector>

namespace sched {

struct Segment { int thread; long steps; };  // run `thread` for `steps` scheduling points (-1: until it finishes)

// Runs the bodies under the given schedule. Returns per-thread number of scheduling points executed; `ok` is false if the
// schedule could not be followed (a segment asked for more points than the thread had left: the replay diverged).
struct RunResult { std::vector<long> points; bool followed = true; };
RunResult run(const std::vector<std::function<void()>> &bodies, const std::vector<Segment> &schedule);

}  // namespace sched
