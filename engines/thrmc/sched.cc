// Scheduler translation unit: compiled WITHOUT -finstrument-functions.
#include "sched.hh"

#include <condition_variable>
#include <mutex>
#include <thread>

namespace sched {

namespace {
struct Worker {
    std::mutex m;
    std::condition_variable cv;
    bool go = false;        // controller -> worker: you may run
    bool yielded = false;   // worker -> controller: I stopped (yield or finish)
    bool finished = false;
    long budget = -1;       // scheduling points left in this segment (-1: unlimited)
    long points = 0;
};
thread_local Worker *tls_worker = nullptr;
thread_local bool tls_in_sched = false;

void worker_yield(Worker *w) {
    std::unique_lock<std::mutex> lk(w->m);
    w->yielded = true;
    w->go = false;
    w->cv.notify_all();
    w->cv.wait(lk, [&] { return w->go; });
}
}  // namespace

extern "C" __attribute__((no_instrument_function)) void sched_point() {
    Worker *w = tls_worker;
    if (!w || tls_in_sched) return;
    tls_in_sched = true;
    ++w->points;
    if (w->budget > 0 && --w->budget == 0) worker_yield(w);
    tls_in_sched = false;
}

RunResult run(const std::vector<std::function<void()>> &bodies, const std::vector<Segment> &schedule) {
    size_t n = bodies.size();
    std::vector<Worker> ws(n);
    std::vector<std::thread> th;
    for (size_t i = 0; i < n; ++i)
        th.emplace_back([&, i] {
            Worker *w = &ws[i];
            {   // wait for the first permission
                std::unique_lock<std::mutex> lk(w->m);
                w->cv.wait(lk, [&] { return w->go; });
            }
            tls_worker = w;
            bodies[i]();
            tls_worker = nullptr;
            std::unique_lock<std::mutex> lk(w->m);
            w->finished = true;
            w->yielded = true;
            w->go = false;
            w->cv.notify_all();
        });
    RunResult rr;
    auto run_segment = [&](int t, long steps) {
        Worker *w = &ws[t];
        std::unique_lock<std::mutex> lk(w->m);
        if (w->finished) { if (steps > 0) rr.followed = false; return; }
        w->budget = steps;
        w->yielded = false;
        w->go = true;
        w->cv.notify_all();
        w->cv.wait(lk, [&] { return w->yielded; });
        if (steps > 0 && w->finished) rr.followed = false;  // the thread ended before the requested preemption point
    };
    for (auto &s : schedule) run_segment(s.thread, s.steps);
    // whatever is left runs to completion in thread order
    for (size_t t = 0; t < n; ++t) { bool fin; { std::unique_lock<std::mutex> lk(ws[t].m); fin = ws[t].finished; } if (!fin) run_segment((int)t, -1); }
    for (auto &t : th) t.join();
    for (auto &w : ws) rr.points.push_back(w.points);
    return rr;
}

}  // namespace sched

extern "C" {
__attribute__((no_instrument_function)) void __cyg_profile_func_enter(void *, void *) { sched::sched_point(); }
__attribute__((no_instrument_function)) void __cyg_profile_func_exit(void *, void *) { sched::sched_point(); }
}
