// Engine E5 (thrmc): concurrent read-only use of a mesh (C20).
//  THRMC_SCHED: all schedules of the reader bodies up to a preemption bound under the serialising scheduler
//               (scheduling points = entry/exit of every instrumented OpenVolumeMesh function);
//  THRMC_FREE : the same bodies on 2..16 free-running threads under ThreadSanitizer.
#include <OpenVolumeMesh/Mesh/HexahedralMesh.hh>
#include <OpenVolumeMesh/Mesh/PolyhedralMesh.hh>
#include <OpenVolumeMesh/Mesh/TetrahedralMesh.hh>
#include <OpenVolumeMesh/Unstable/Topology/TetTopology.hh>

#include <atomic>
#include <chrono>
#include <fstream>
#include <functional>
#include <iostream>
#include <sstream>
#include <thread>
#include <vector>

#ifdef THRMC_SCHED
#include "sched.hh"
#endif

using namespace OpenVolumeMesh;
using Vec3d = Geometry::Vec3d;
using PolyM = GeometryKernel<Vec3d, TopologyKernel>;
using TetM = GeometryKernel<Vec3d, TetrahedralMeshTopologyKernel>;
using HexM = GeometryKernel<Vec3d, HexahedralMeshTopologyKernel>;

// ---------------------------------------------------------------------------------------------- fixtures
template <class M> struct Fixture {
    M m;
    std::optional<VertexPropertyT<int>> pi;
    std::optional<EdgePropertyT<bool>> pb;
    std::optional<CellPropertyT<std::string>> ps;
    std::optional<HalfFacePropertyT<Vec3d>> pv;
    void props() {
        pi = m.template request_vertex_property<int>("i", 3); pb = m.template request_edge_property<bool>("b", false);
        ps = m.template request_cell_property<std::string>("s", "d"); pv = m.template request_halfface_property<Vec3d>("v", Vec3d(1, 2, 3));
        for (auto v : m.vertices()) (*pi)[v] = 10 + v.idx();
        for (auto e : m.edges()) (*pb)[e] = e.idx() % 2;
        for (auto c : m.cells()) (*ps)[c] = "cell" + std::to_string(c.idx());
        for (auto h : m.halffaces()) (*pv)[h] = Vec3d(h.idx(), 0, 1);
    }
};
static HalfFaceHandle hf_of(TopologyKernel &m, std::vector<VertexHandle> vs) {
    auto h = m.find_halfface_extensive(vs);
    if (h.is_valid()) return h;
    std::vector<VertexHandle> r(vs.rbegin(), vs.rend());
    h = m.find_halfface_extensive(r);
    if (h.is_valid()) return m.opposite_halfface_handle(h);
    return m.halfface_handle(m.add_face(vs), 0);
}
static void build(Fixture<PolyM> &f) {
    auto &m = f.m;
    std::vector<VertexHandle> v;
    for (int i = 0; i < 7; ++i) v.push_back(m.add_vertex(Vec3d(i, i * i % 5, (i * 3) % 4)));
    auto tet = [&](int a, int b, int c, int d) { m.add_cell({hf_of(m, {v[a], v[b], v[c]}), hf_of(m, {v[a], v[c], v[d]}), hf_of(m, {v[a], v[d], v[b]}), hf_of(m, {v[b], v[d], v[c]})}); };
    tet(0, 1, 2, 3); tet(0, 2, 1, 4);
    m.add_cell({hf_of(m, {v[1], v[2], v[3]}), hf_of(m, {v[1], v[3], v[5]}), hf_of(m, {v[3], v[2], v[5]}), hf_of(m, {v[2], v[1], v[5]})});
    m.add_face(std::vector<VertexHandle>{v[4], v[5], v[6]});
    m.add_edge(v[0], v[6]);
    f.props();
}
static void build(Fixture<TetM> &f) {
    auto &m = f.m;
    std::vector<VertexHandle> v;
    for (int i = 0; i < 6; ++i) v.push_back(m.add_vertex(Vec3d(i, (i * 2) % 3, i % 2)));
    m.add_cell(v[0], v[1], v[2], v[3]); m.add_cell(v[0], v[1], v[3], v[4]); m.add_cell(v[0], v[1], v[4], v[5]);
    f.props();
}
static void build(Fixture<HexM> &f) {
    auto &m = f.m;
    std::vector<VertexHandle> v;
    for (int z = 0; z < 3; ++z) for (int y = 0; y < 2; ++y) for (int x = 0; x < 2; ++x) v.push_back(m.add_vertex(Vec3d(x, y, z)));
    auto id = [](int x, int y, int z) { return x + 2 * y + 4 * z; };
    for (int z = 0; z < 2; ++z) m.add_cell({v[id(0, 0, z)], v[id(1, 0, z)], v[id(1, 1, z)], v[id(0, 1, z)], v[id(0, 0, z + 1)], v[id(0, 1, z + 1)], v[id(1, 1, z + 1)], v[id(1, 0, z + 1)]});
    f.props();
}

// "big" fixtures: a vertex (index 0) with many incident entities, so that size-dependent code paths of the queries are reached
// (poly/tet: a wheel - hub 0, 18 rim vertices, top and bottom apex, 36 tets, hub valence 20; hex: 2x2x2 block around the centre vertex)
static bool g_big = false;
static const int WHEEL = 18;
static void build_big(Fixture<PolyM> &f) {
    auto &m = f.m;
    std::vector<VertexHandle> v;
    v.push_back(m.add_vertex(Vec3d(0, 0, 0)));
    for (int i = 0; i < WHEEL; ++i) v.push_back(m.add_vertex(Vec3d(10 + i % 3, i, (i * 7) % 5)));
    int T = (int)v.size(); v.push_back(m.add_vertex(Vec3d(0, 0, 9)));
    int B = (int)v.size(); v.push_back(m.add_vertex(Vec3d(0, 0, -9)));
    auto tet = [&](int a, int b, int c, int d) { m.add_cell({hf_of(m, {v[a], v[b], v[c]}), hf_of(m, {v[a], v[c], v[d]}), hf_of(m, {v[a], v[d], v[b]}), hf_of(m, {v[b], v[d], v[c]})}); };
    for (int i = 0; i < WHEEL; ++i) tet(0, 1 + i, 1 + (i + 1) % WHEEL, T);
    for (int i = 0; i < WHEEL; ++i) tet(0, 1 + (i + 1) % WHEEL, 1 + i, B);
    f.props();
}
static void build_big(Fixture<TetM> &f) {
    auto &m = f.m;
    std::vector<VertexHandle> v;
    v.push_back(m.add_vertex(Vec3d(0, 0, 0)));
    for (int i = 0; i < WHEEL; ++i) v.push_back(m.add_vertex(Vec3d(10 + i % 3, i, (i * 7) % 5)));
    int T = (int)v.size(); v.push_back(m.add_vertex(Vec3d(0, 0, 9)));
    int B = (int)v.size(); v.push_back(m.add_vertex(Vec3d(0, 0, -9)));
    for (int i = 0; i < WHEEL; ++i) m.add_cell(v[0], v[1 + i], v[1 + (i + 1) % WHEEL], v[T]);
    for (int i = 0; i < WHEEL; ++i) m.add_cell(v[0], v[1 + (i + 1) % WHEEL], v[1 + i], v[B]);
    f.props();
}
static void build_big(Fixture<HexM> &f) {
    auto &m = f.m;
    std::vector<VertexHandle> v(27);
    auto id = [](int x, int y, int z) { return x + 3 * y + 9 * z; };
    v[id(1, 1, 1)] = m.add_vertex(Vec3d(1, 1, 1));
    for (int z = 0; z < 3; ++z) for (int y = 0; y < 3; ++y) for (int x = 0; x < 3; ++x) if (!(x == 1 && y == 1 && z == 1)) v[id(x, y, z)] = m.add_vertex(Vec3d(x, y, z));
    for (int z = 0; z < 2; ++z) for (int y = 0; y < 2; ++y) for (int x = 0; x < 2; ++x)
        m.add_cell({v[id(x, y, z)], v[id(x + 1, y, z)], v[id(x + 1, y + 1, z)], v[id(x, y + 1, z)], v[id(x, y, z + 1)], v[id(x, y + 1, z + 1)], v[id(x + 1, y + 1, z + 1)], v[id(x + 1, y, z + 1)]});
    f.props();
}
template <class M> void build_fixture(Fixture<M> &f) { if (g_big) build_big(f); else build(f); }

// ---------------------------------------------------------------------------------------------- reader bodies (const queries)
struct Log { std::ostringstream o; template <class T> Log &operator<<(const T &x) { o << x << ' '; return *this; } };
template <class It> void drain(Log &l, It it) { for (; it.valid(); ++it) l << (*it).idx(); l << '|'; }

template <class M> void query(const Fixture<M> &f, int q, Log &l) {
    const M &m = f.m;
    switch (q) {
    case 0: for (auto v : m.vertices()) l << v.idx(); for (auto e : m.edges()) l << e.idx(); for (auto h : m.halfedges()) l << h.idx(); for (auto x : m.faces()) l << x.idx(); for (auto h : m.halffaces()) l << h.idx(); for (auto c : m.cells()) l << c.idx(); break;
    case 1: for (auto v : m.vertices()) { drain(l, m.voh_iter(v)); drain(l, m.vih_iter(v)); drain(l, m.vv_iter(v)); drain(l, m.ve_iter(v)); drain(l, m.vf_iter(v)); drain(l, m.vhf_iter(v)); drain(l, m.vc_iter(v, 2)); } break;
    case 2: for (auto h : m.halfedges()) { drain(l, m.hehf_iter(h)); drain(l, m.hef_iter(h)); drain(l, m.hec_iter(h)); } for (auto e : m.edges()) { drain(l, m.ehf_iter(e)); drain(l, m.ef_iter(e)); drain(l, m.ec_iter(e)); } break;
    case 3: for (auto h : m.halffaces()) { drain(l, m.hfhe_iter(h)); drain(l, m.hfv_iter(h)); drain(l, m.hfe_iter(h)); if (m.is_boundary(h)) drain(l, m.bhfhf_iter(h)); } for (auto x : m.faces()) { drain(l, m.fhe_iter(x)); drain(l, m.fv_iter(x)); drain(l, m.fe_iter(x)); } break;
    case 4: for (auto c : m.cells()) { drain(l, m.chf_iter(c)); drain(l, m.cf_iter(c)); drain(l, m.che_iter(c)); drain(l, m.ce_iter(c)); drain(l, m.cv_iter(c)); drain(l, m.cc_iter(c)); } break;
    case 5: {
        std::vector<VertexHandle> vs;   // all vertices of the small fixtures, the first 9 of the big ones (cubic loops below)
        for (auto a : m.vertices()) if (vs.size() < 9) vs.push_back(a);
        std::vector<HalfEdgeHandle> hs;
        for (auto a : m.halfedges()) if (hs.size() < 40) hs.push_back(a);
        for (auto a : vs) for (auto b : vs) l << m.find_halfedge(a, b).idx();
        for (int k = 1; k <= 3 && k < (int)m.n_vertices(); ++k) { VertexHandle last((int)m.n_vertices() - k); l << m.find_halfedge(VertexHandle(0), last).idx() << m.find_halfedge(last, VertexHandle(0)).idx(); }
        for (auto a : vs) for (auto b : vs) for (auto c : vs) if (a != b && b != c && a != c) { l << m.find_halfface({a, b, c}).idx() << m.find_halfface_extensive({a, b, c}).idx(); for (auto ch : m.cells()) l << m.find_halfface_in_cell({a, b, c}, ch).idx(); }
        for (auto a : hs) for (auto b : hs) if (a.idx() % 3 == 0) l << m.find_halfface(std::vector<HalfEdgeHandle>{a, b}).idx();
        for (auto ch : m.cells()) for (auto a : vs) for (auto b : vs) l << m.find_halfedge_in_cell(a, b, ch).idx();
        break;
    }
    case 6: for (auto v : m.vertices()) l << m.is_boundary(v) << m.valence(v); for (auto e : m.edges()) l << m.is_boundary(e) << m.valence(e); for (auto h : m.halfedges()) l << m.is_boundary(h);
            for (auto x : m.faces()) l << m.is_boundary(x) << m.valence(x); for (auto h : m.halffaces()) l << m.is_boundary(h); for (auto c : m.cells()) l << m.is_boundary(c) << m.valence(c) << m.n_vertices_in_cell(c);
            drain(l, m.bv_iter()); drain(l, m.bhe_iter()); drain(l, m.be_iter()); drain(l, m.bhf_iter()); drain(l, m.bf_iter()); drain(l, m.bc_iter()); break;
    case 7: for (auto e : m.edges()) l << m.edge(e).from_vertex().idx() << m.edge(e).to_vertex().idx(); for (auto h : m.halfedges()) l << m.halfedge(h).to_vertex().idx() << m.opposite_halfedge(h).to_vertex().idx();
            for (auto h : m.halffaces()) { for (auto he : m.halfface(h).halfedges()) { l << he.idx() << m.next_halfedge_in_halfface(he, h).idx() << m.prev_halfedge_in_halfface(he, h).idx() << m.adjacent_halfface_in_cell(h, he).idx(); } l << m.incident_cell(h).idx(); for (auto v : m.get_halfface_vertices(h)) l << v.idx(); for (auto he : m.opposite_halfface(h).halfedges()) l << he.idx(); }
            for (auto c : m.cells()) for (auto h : m.cell(c).halffaces()) l << h.idx(); break;
    case 8: for (auto v : m.vertices()) l << m.vertex(v)[0] << m.vertex(v)[2]; for (auto e : m.edges()) l << m.length(e) << m.vector(e)[1] << m.barycenter(e)[0]; for (auto x : m.faces()) l << m.barycenter(x)[1] << m.normal(m.halfface_handle(x, 1))[2]; for (auto c : m.cells()) l << m.barycenter(c)[2]; break;
    case 9: { for (auto v : m.vertices()) { int x = (*f.pi)[v]; l << x; } for (auto e : m.edges()) { bool b = (*f.pb)[e]; l << b; } for (auto c : m.cells()) { std::string s = (*f.ps)[c]; l << s; } for (auto h : m.halffaces()) { Vec3d v = (*f.pv)[h]; l << v[0]; }
              l << f.pi->size() << f.pi->name() << f.pi->def() << f.pb->shared() << f.ps->persistent() << bool(*f.pv); std::vector<int> copy(f.pi->begin(), f.pi->end()); l << copy.size(); break; }
    case 10:
        if constexpr (std::is_same_v<M, TetM>) { for (auto c : m.cells()) { for (auto v : m.get_cell_vertices(c)) l << v.idx(); drain(l, m.tv_iter(c)); for (auto h : m.cell(c).halffaces()) { l << m.halfface_opposite_vertex(h).idx(); for (auto v : m.get_cell_vertices(h)) l << v.idx(); for (auto he : m.halfface(h).halfedges()) for (auto v : m.get_cell_vertices(h, he)) l << v.idx(); } for (auto v : m.cell_vertices(c)) { l << m.vertex_opposite_halfface(c, v).idx(); TetTopology t(m, c, v); l << t.b().idx() << t.cd().idx() << t.bdc().idx(); } } }
        else if constexpr (std::is_same_v<M, HexM>) { for (auto c : m.cells()) { drain(l, m.hv_iter(c)); for (unsigned char d = 0; d < 6; ++d) { drain(l, m.csc_iter(c, d)); l << m.get_oriented_halfface(d, c).idx(); } for (auto h : m.cell(c).halffaces()) { l << (int)m.orientation(h, c) << m.opposite_halfface_handle_in_cell(h, c).idx(); drain(l, m.hfshf_iter(h)); for (auto he : m.halfface(h).halfedges()) l << m.adjacent_halfface_on_sheet(h, he).idx() << m.adjacent_halfface_on_surface(h, he).idx(); } } }
        else { for (auto c : m.cells()) l << m.n_vertices_in_cell(c); for (auto x : m.faces()) for (auto e : m.edges()) l << m.is_incident(x, e); }
        break;
    case 11: l << m.n_vertices() << m.n_edges() << m.n_halfedges() << m.n_faces() << m.n_halffaces() << m.n_cells() << m.n_logical_vertices() << m.n_logical_cells() << m.genus() << m.needs_garbage_collection() << m.has_full_bottom_up_incidences() << m.deferred_deletion_enabled();
             for (auto v : m.vertices()) l << m.is_deleted(v) << m.is_valid(v); l << m.template n_props<Entity::Vertex>() << m.template n_persistent_props<Entity::Cell>() << m.template property_exists<int, Entity::Vertex>("i"); break;
    }
}
static const int NQ = 12;

// fine-grained queries for the controlled scheduler: one API call (or one short traversal) on one entity each
template <class M> void micro(const Fixture<M> &f, int q, Log &l) {
    const M &m = f.m;
    const int nhf = (int)m.n_halffaces(), nhe = (int)m.n_halfedges();
    HalfFaceHandle hodd(nhf > 3 ? 3 : 1), heven(nhf > 2 ? 2 : 0);
    HalfEdgeHandle he0 = m.halfface(hodd).halfedges()[0], he1 = m.halfface(heven).halfedges()[1 % m.halfface(heven).halfedges().size()];
    VertexHandle v0(0), v1(1), v2(2);
    CellHandle c0(0);
    switch (q) {
    case 0: drain(l, m.vc_iter(v0)); break;
    case 1: drain(l, m.vf_iter(v1)); break;
    case 2: drain(l, m.hehf_iter(he0)); drain(l, m.hec_iter(he1)); break;
    case 3: l << m.find_halfface({v0, v1, v2}).idx() << m.find_halfface({v2, v1, v0}).idx(); break;
    case 4: l << m.find_halfface_extensive({v0, v2, v1}).idx() << m.find_halfedge(v1, v0).idx() << m.find_halfedge(v0, VertexHandle((int)m.n_vertices() - 1)).idx(); break;
    case 5: l << m.next_halfedge_in_halfface(he0, hodd).idx() << m.prev_halfedge_in_halfface(he0, hodd).idx(); break;
    case 6: l << m.next_halfedge_in_halfface(he1, heven).idx() << m.prev_halfedge_in_halfface(he1, heven).idx(); break;
    case 7: for (auto he : m.halfface(hodd).halfedges()) l << he.idx(); for (auto he : m.opposite_halfface(heven).halfedges()) l << he.idx(); l << m.halfedge(he0).to_vertex().idx(); break;
    case 8: l << m.adjacent_halfface_in_cell(m.cell(c0).halffaces()[1], m.halfface(m.cell(c0).halffaces()[1]).halfedges()[0]).idx(); l << m.find_halfface_in_cell({v0, v1, v2}, c0).idx() << m.find_halfedge_in_cell(v0, v1, c0).idx(); break;
    case 9: l << m.is_boundary(v0) << m.is_boundary(EdgeHandle(0)) << m.is_boundary(c0) << m.valence(v1) << m.valence(EdgeHandle(1)); break;
    case 10: drain(l, m.cv_iter(c0)); drain(l, m.cc_iter(c0)); drain(l, m.ce_iter(c0)); break;
    case 11: l << m.barycenter(c0)[0] << m.barycenter(FaceHandle(0))[1] << m.normal(hodd)[2] << m.length(EdgeHandle(0)); break;
    case 12: { int x = (*f.pi)[v1]; bool b = (*f.pb)[EdgeHandle(1)]; std::string s = (*f.ps)[c0]; l << x << b << s << (*f.pv)[hodd][0] << f.pi->name() << f.pi->size(); break; }
    case 13: for (auto v : m.get_halfface_vertices(hodd)) l << v.idx(); for (auto v : m.get_halfface_vertices(heven, v1)) l << v.idx(); drain(l, m.hfv_iter(hodd)); break;
    case 14: drain(l, m.bhf_iter()); break;
    case 15:
        if constexpr (std::is_same_v<M, TetM>) { for (auto v : m.get_cell_vertices(c0)) l << v.idx(); drain(l, m.tv_iter(c0)); l << m.halfface_opposite_vertex(m.cell(c0).halffaces()[2]).idx(); TetTopology t(m, c0, v0); l << t.d().idx() << t.bdc().idx(); }
        else if constexpr (std::is_same_v<M, HexM>) { drain(l, m.hv_iter(c0)); drain(l, m.csc_iter(c0, 4)); drain(l, m.hfshf_iter(m.cell(c0).halffaces()[5])); l << (int)m.orientation(m.cell(c0).halffaces()[3], c0); }
        else { l << m.n_vertices_in_cell(c0) << m.is_incident(FaceHandle(0), EdgeHandle(0)); drain(l, m.ehf_iter(EdgeHandle(0))); }
        break;
    }
    (void)nhe;
}
static const int NMICRO = 16;

template <class M> std::string mesh_key(const M &m) {
    std::ostringstream o;
    const TopologyKernel &t = m;
    o << t.n_vertices() << '/';
    for (auto &e : t.edges_) o << e.from_vertex().idx() << '>' << e.to_vertex().idx() << ',';
    for (auto &f : t.faces_) { for (auto h : f.halfedges()) o << h.idx() << ' '; o << ','; }
    for (auto &c : t.cells_) { for (auto h : c.halffaces()) o << h.idx() << ' '; o << ','; }
    for (auto &l : t.outgoing_hes_per_vertex_) { for (auto h : l) o << h.idx() << ' '; o << ','; }
    for (auto &l : t.incident_hfs_per_he_) { for (auto h : l) o << h.idx() << ' '; o << ','; }
    for (auto c : t.incident_cell_per_hf_) o << c.idx() << ',';
    for (size_t i = 0; i < m.n_vertices(); ++i) o << m.vertex(VertexHandle((int)i))[0];
    return o.str();
}

static std::string jesc(const std::string &s) { std::string r; for (char c : s) { if (c == '"' || c == '\\') { r += '\\'; r += c; } else if ((unsigned char)c < 32) r += ' '; else r += c; } return r; }

struct Found { std::string casestr, rule, detail; };

#ifdef THRMC_SCHED
// ---------------------------------------------------------------------------------------------- schedule exploration
static bool g_capped = false;
template <class M> void explore(const char *kname, int nthreads, int bound, int qa, int qb, int qc, double deadline, long &schedules, long &points_total, std::vector<Found> &found, std::vector<std::string> &samples,
                                const std::string &replay) {
    Fixture<M> f;
    build_fixture(f);
    const std::string key0 = mesh_key(f.m);
    std::vector<int> qs{qa, qb};
    if (nthreads == 3) qs.push_back(qc);
    std::vector<std::string> ref;
    for (int q : qs) { Log l; micro(f, q, l); ref.push_back(l.o.str()); }
    auto t0 = std::chrono::steady_clock::now();
    std::string base = std::string("c20|") + kname + "|q=" + std::to_string(qa) + "," + std::to_string(qb) + (nthreads == 3 ? "," + std::to_string(qc) : "") + "|sched=";
    auto run_one = [&](const std::vector<sched::Segment> &sc) -> sched::RunResult {
        std::vector<Log> logs(qs.size());
        std::vector<std::function<void()>> bodies;
        for (size_t i = 0; i < qs.size(); ++i) bodies.push_back([&, i] { micro(f, qs[i], logs[i]); });
        auto rr = sched::run(bodies, sc);
        ++schedules;
        for (long p : rr.points) points_total += p;
        std::string cs = base;
        for (auto &s : sc) cs += std::to_string(s.thread) + ":" + std::to_string(s.steps) + ";";
        if (!rr.followed && !replay.empty()) found.push_back({cs, "harness:schedule-diverged", "the recorded schedule could not be followed"});
        for (size_t i = 0; i < qs.size(); ++i) if (logs[i].o.str() != ref[i]) { found.push_back({cs, "c20:observation-differs", "thread " + std::to_string(i) + " (query " + std::to_string(qs[i]) + ") observed different results than single-threaded"}); break; }
        if (mesh_key(f.m) != key0) found.push_back({cs, "c20:mesh-changed", "a read-only query changed the mesh state"});
        if (samples.size() < 3 && schedules % 97 == 3) samples.push_back(cs);
        return rr;
    };
    if (!replay.empty()) {
        // replay string: "t:n;t:n;..."
        std::vector<sched::Segment> sc;
        std::istringstream is(replay);
        std::string tok;
        while (std::getline(is, tok, ';')) { int t; long n; if (sscanf(tok.c_str(), "%d:%ld", &t, &n) == 2) sc.push_back({t, n}); }
        run_one(sc);
        return;
    }
    // 0 preemptions: every thread order
    std::vector<int> order(qs.size());
    for (size_t i = 0; i < order.size(); ++i) order[i] = (int)i;
    std::vector<long> len(qs.size(), 0);
    do {
        std::vector<sched::Segment> sc;
        for (int t : order) sc.push_back({t, -1});
        auto rr = run_one(sc);
        len = rr.points;
    } while (std::next_permutation(order.begin(), order.end()) && found.empty());
    // iterative context bounding: 1 preemption, then 2 (two threads: A[0..i] B[0..j] A.. B..)
    auto timed_out = [&]() { bool t = deadline > 0 && std::chrono::duration<double>(std::chrono::steady_clock::now() - t0).count() > deadline; if (t) g_capped = true; return t; };
    int n = (int)qs.size();
    for (int a = 0; a < n && found.empty(); ++a) {
        for (long i = 1; i < len[a] && found.empty(); ++i) {
            for (int b = 0; b < n && found.empty(); ++b) {
                if (b == a) continue;
                // one preemption: a runs i points, then b completely, then the rest
                run_one({{a, i}, {b, -1}});
                if (bound >= 2 && n == 2) for (long j = 1; j < len[b] && found.empty(); ++j) { run_one({{a, i}, {b, j}, {a, -1}}); if (timed_out()) return; }
                if (timed_out()) return;
            }
        }
    }
}
#endif

#ifdef THRMC_FREE
template <class M> void free_run(const char *kname, int nthreads, int reps, std::vector<Found> &found, long &evals) {
    Fixture<M> f;
    build_fixture(f);
    std::vector<std::string> ref;
    for (int q = 0; q < NQ; ++q) { Log l; query(f, q, l); ref.push_back(l.o.str()); }
    const std::string key0 = mesh_key(f.m);
    std::atomic<int> ready{0};
    std::atomic<bool> go{false};
    std::vector<std::thread> th;
    std::vector<std::string> bad(nthreads);
    for (int t = 0; t < nthreads; ++t)
        th.emplace_back([&, t] {
            ++ready;
            while (!go.load()) std::this_thread::yield();
            for (int r = 0; r < reps; ++r) for (int k = 0; k < NQ; ++k) { int q = (k + t * 5 + r) % NQ; Log l; query(f, q, l); if (l.o.str() != ref[q]) bad[t] = "query " + std::to_string(q); }
        });
    while (ready.load() < nthreads) std::this_thread::yield();
    go = true;
    for (auto &t : th) t.join();
    evals += (long)nthreads * reps * NQ;
    for (int t = 0; t < nthreads; ++t) if (!bad[t].empty()) found.push_back({std::string("c20|free|") + kname + "|threads=" + std::to_string(nthreads), "c20:observation-differs", "thread " + std::to_string(t) + " " + bad[t]});
    if (mesh_key(f.m) != key0) found.push_back({std::string("c20|free|") + kname, "c20:mesh-changed", ""});
}
#endif

int main(int argc, char **argv) {
    std::string out, kernel = "poly", replay;
    int nthreads = 2, bound = 1, qa = 0, qb = 1, qc = 2, reps = 2;
    double deadline = 0;
    for (int i = 1; i < argc; ++i) {
        std::string k = argv[i];
        auto nxt = [&]() { return std::string(i + 1 < argc ? argv[++i] : ""); };
        if (k == "--out") out = nxt();
        else if (k == "--kernel") kernel = nxt();
        else if (k == "--threads") nthreads = std::stoi(nxt());
        else if (k == "--bound") bound = std::stoi(nxt());
        else if (k == "--queries") { std::string q = nxt(); sscanf(q.c_str(), "%d,%d,%d", &qa, &qb, &qc); }
        else if (k == "--deadline") deadline = std::stod(nxt());
        else if (k == "--reps") reps = std::stoi(nxt());
        else if (k == "--replay") {
            // c20|kernel|q=a,b[,c]|sched=...
            replay = nxt();
            if (replay == "free") { replay.clear(); continue; }  // free-running jobs are replayed by running them again
            std::string r = replay;
            size_t p = r.find("|sched=");
            std::string sc = p == std::string::npos ? "" : r.substr(p + 7);
            size_t q0 = r.find("|q=");
            std::string qq = r.substr(q0 + 3, p - q0 - 3);
            int n = sscanf(qq.c_str(), "%d,%d,%d", &qa, &qb, &qc);
            nthreads = n >= 3 ? 3 : 2;
            kernel = r.substr(4, r.find('|', 4) - 4);
            replay = sc.empty() ? "0:-1;" : sc;
        }
    }
    if (!kernel.empty() && kernel.back() == 'B') { g_big = true; kernel.pop_back(); }
    auto t0 = std::chrono::steady_clock::now();
    std::vector<Found> found;
    std::vector<std::string> samples;
    long schedules = 0, points = 0, evals = 0;
#ifdef THRMC_SCHED
    if (kernel == "poly") explore<PolyM>(g_big ? "polyB" : "poly", nthreads, bound, qa, qb, qc, deadline, schedules, points, found, samples, replay);
    else if (kernel == "tet") explore<TetM>(g_big ? "tetB" : "tet", nthreads, bound, qa, qb, qc, deadline, schedules, points, found, samples, replay);
    else explore<HexM>(g_big ? "hexB" : "hex", nthreads, bound, qa, qb, qc, deadline, schedules, points, found, samples, replay);
    evals = schedules;
#endif
#ifdef THRMC_FREE
    (void)bound; (void)qa; (void)qb; (void)qc; (void)deadline;
    if (kernel == "poly") free_run<PolyM>(g_big ? "polyB" : "poly", nthreads, reps, found, evals);
    else if (kernel == "tet") free_run<TetM>(g_big ? "tetB" : "tet", nthreads, reps, found, evals);
    else free_run<HexM>(g_big ? "hexB" : "hex", nthreads, reps, found, evals);
    samples.push_back(std::string("c20|free|") + kernel + (g_big ? "B" : "") + "|threads=" + std::to_string(nthreads) + "|all " + std::to_string(NQ) + " queries, rotated start");
#endif
    if (!replay.empty()) {
        for (auto &f : found) printf("REPLAY-VIOLATION rule=%s detail=%s\n", f.rule.c_str(), f.detail.c_str());
        if (found.empty()) printf("REPLAY-OK\n");
        return found.empty() ? 0 : 1;
    }
    double wall = std::chrono::duration<double>(std::chrono::steady_clock::now() - t0).count();
    std::ostringstream o;
    o << "{\"prop\":\"C20\",\"states\":" << schedules << ",\"transitions\":" << points << ",\"evaluations\":" << evals << ",\"distinct_nontrivial\":" << evals << ",\"capped\":" << (
#ifdef THRMC_SCHED
          g_capped
#else
          false
#endif
          ? "true" : "false") << ",\"wall_s\":" << wall
      << ",\"checks\":{\"schedules\":" << schedules << ",\"scheduling-points\":" << points << "},\"samples\":[";
    for (size_t i = 0; i < samples.size(); ++i) o << (i ? "," : "") << "\"" << jesc(samples[i]) << "\"";
    o << "],\"violations\":[";
    for (size_t i = 0; i < found.size() && i < 3; ++i) o << (i ? "," : "") << "{\"case\":\"" << jesc(found[i].casestr) << "\",\"rule\":\"" << jesc(found[i].rule) << "\",\"detail\":\"" << jesc(found[i].detail) << "\"}";
    o << "],\"known\":[]}";
    if (!out.empty()) { std::ofstream fo(out); fo << o.str() << "\n"; } else printf("%s\n", o.str().c_str());
    return found.empty() ? 0 : 1;
}
