#!/bin/bash
# Run checks against a stored seeded change in a scratch worktree of /repo (VERIF_REPO), then clean up.
# usage: seeded_run.sh <seeded-id> <prop> [<prop> ...]
ID=$1; shift
W=/tmp/wt/run_$ID
git -C /repo worktree remove --force $W >/dev/null 2>&1
git -C /repo worktree add --detach $W HEAD >/dev/null 2>&1 || exit 2
git -C $W apply /verif/seeded/$ID/patch.diff 2>/dev/null || git -C $W apply --3way /verif/seeded/$ID/patch.diff || { echo "patch does not apply"; git -C /repo worktree remove --force $W; exit 2; }
cd /verif
for P in "$@"; do
  T0=$(date +%s)
  OUT=$(VERIF_REPO=$W ./check $P 2>&1 | grep -E "^VIOLATION|^KNOWN|^UNCONF|^BUILD-ERROR|tier=" | cut -c1-260)
  echo "== seeded=$ID check=$P ($(( $(date +%s)-T0 ))s)"; echo "$OUT"
done
TAG=$(python3 -c "import hashlib;print(hashlib.sha1('$W'.encode()).hexdigest()[:8])")
rm -rf /verif/build/$TAG-*
git -C /repo worktree remove --force $W
git -C /verif checkout -- evidence 2>/dev/null
