#!/usr/bin/env python3
"""Development helper: run the job table of a tier with a short per-job deadline and print which jobs would be capped.
usage: probe_tier.py <prop> <tier> <deadline_s> [workers]"""
import sys, os, json, subprocess, time, concurrent.futures as cf
sys.path.insert(0, os.path.dirname(os.path.dirname(os.path.abspath(__file__))))
import jobs as J
prop, tier, dl = sys.argv[1], sys.argv[2], int(sys.argv[3])
nw = int(sys.argv[4]) if len(sys.argv) > 4 else 8
js = J.PROPS[prop]["jobs"](tier, [])
flt = sys.argv[5].split(",") if len(sys.argv) > 5 else []
js = [j for j in js if all(f in j["id"] for f in flt)]
def run(j):
    a = list(j["args"])
    if "--deadline" in a:
        a[a.index("--deadline") + 1] = str(dl)
    t = time.time()
    try:
        p = subprocess.run([os.path.join("build", j["cfg"], j["bin"])] + a, capture_output=True, text=True, timeout=dl + 60)
        d = json.loads(p.stdout) if p.stdout.strip().startswith("{") else {}
    except Exception as e:
        d = {"capped": True}
    return j["id"], time.time() - t, d.get("capped"), d.get("states"), d.get("completed_depth")
with cf.ThreadPoolExecutor(nw) as ex:
    res = list(ex.map(run, js))
tot = sum(r[1] for r in res)
cap = [r for r in res if r[2]]
print("jobs", len(res), "total_core_s %.0f" % tot, "capped", len(cap))
for r in sorted(res, key=lambda r: -r[1])[:15]:
    print("  %.1fs capped=%s states=%s depth=%s %s" % (r[1], r[2], r[3], r[4], r[0]))

import collections
by_seed = collections.Counter()
for r in cap:
    parts = r[0].split("-"); by_seed[(parts[1], parts[2], parts[-1])] += 1
print("capped by (kernel, seed, cfg):", dict(by_seed))
