#!/usr/bin/env python3
"""Prints the markdown coverage table of DESIGN.md section 0.4 from evidence files.
usage: coverage_table.py <quick_evidence_dir> <thorough_evidence_dir_or_prefix>"""
import json, os, sys, glob
qd, td = sys.argv[1], sys.argv[2]
def load(path):
    try:
        return json.load(open(path))
    except Exception:
        return None
def cell(e):
    if not e:
        return "not run"
    c = e["coverage"]
    if e["level"] == "model_checking":
        size = "%s states / %s transitions" % (f"{c.get('states',0):,}", f"{c.get('transitions',0):,}")
    else:
        size = "%s cases, %s outcome classes" % (f"{c.get('evaluations',0):,}", c.get("distinct_nontrivial", "?"))
        if c.get("states"):
            size += ", %s schedules" % f"{c['states']:,}"
    ex = "exhaustive" if c.get("exhaustive") else "NOT exhaustive: %d capped, %d skipped (budget %ss)" % (len(c.get("jobs_capped", [])), c.get("n_jobs_skipped_budget", 0), int(c.get("budget_s", 0)))
    return "%d jobs, %s, %.0f s, %s" % (c["jobs"], size, e["wall_s"], ex)
print("| id | quick tier (measured) | thorough tier (measured) |")
print("|---|---|---|")
for i in range(1, 21):
    pid = "C%02d" % i
    q = load(os.path.join(qd, pid + ".json"))
    t = load(td + pid + ".json")
    if q and q.get("tier") != "quick": q = None
    if t and t.get("tier") != "thorough": t = None
    print("| %s | %s | %s |" % (pid, cell(q), cell(t)))
