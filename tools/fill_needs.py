#!/usr/bin/env python3
"""Copies the one-line 'needs_to_manifest' descriptions (tools/seeded_needs.json) into seeded/<id>/meta.json."""
import json, os
here = os.path.dirname(os.path.abspath(__file__))
needs = json.load(open(os.path.join(here, "seeded_needs.json")))
for k, v in needs.items():
    p = os.path.join(here, "..", "seeded", k, "meta.json")
    if os.path.exists(p):
        m = json.load(open(p)); m["needs_to_manifest"] = v; json.dump(m, open(p, "w"), indent=1)
    else:
        print("missing", k)
