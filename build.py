#!/usr/bin/env python3
"""Generate a Makefile for one verification configuration and run make.

Everything is compiled from the *current working tree* of the repository
(VERIF_REPO, default /repo): the library source list is parsed from
src/CMakeLists.txt, generated headers come from a configure-only cmake run.
"""
import hashlib
import os
import re
import subprocess
import sys

VERIF = os.path.dirname(os.path.abspath(__file__))
REPO = os.environ.get("VERIF_REPO", "/repo")

COMMON = "-std=c++17 -DNDEBUG -DOVM_STATIC_DEFINE -DOVM_VERIF_HOOKS -w"
CFGS = {
    "asan": dict(
        cxx="g++",
        lib=COMMON + " -O1 -g1 -fsanitize=address,undefined -fno-sanitize=vptr "
        "-fno-sanitize-recover=all -D_GLIBCXX_ASSERTIONS -D_GLIBCXX_SANITIZE_VECTOR",
        har=COMMON + " -O1 -g1 -fsanitize=address,undefined -fno-sanitize=vptr "
        "-fno-sanitize-recover=all -D_GLIBCXX_ASSERTIONS -D_GLIBCXX_SANITIZE_VECTOR -fno-access-control",
        ld="-fsanitize=address,undefined",
    ),
    "fast": dict(
        cxx="g++",
        lib=COMMON + " -O2 -D_GLIBCXX_ASSERTIONS",
        har=COMMON + " -O2 -D_GLIBCXX_ASSERTIONS -fno-access-control",
        ld="-pthread",
    ),
    "tsan": dict(
        cxx="clang++",
        lib=COMMON + " -O1 -g -fsanitize=thread",
        har=COMMON + " -O1 -g -fsanitize=thread -fno-access-control",
        ld="-fsanitize=thread -pthread",
    ),
    "sched": dict(
        cxx="g++",
        lib=COMMON + " -O0 -g1 -fno-inline -finstrument-functions "
        "-finstrument-functions-exclude-file-list=/usr/include,/usr/lib",
        har=COMMON + " -O0 -g1 -fno-inline -finstrument-functions "
        "-finstrument-functions-exclude-file-list=/usr/include,/usr/lib,engines/thrmc/sched "
        "-fno-access-control",
        ld="-pthread",
    ),
}

# target -> (list of (source relative to /verif/engines, extra flags), needs_io, cfgs)
TARGETS = {
    "meshmc_poly": ([("meshmc/meshmc_main.cc", "-DKERNEL_POLY")], False, ["asan", "fast"]),
    "meshmc_tet": ([("meshmc/meshmc_main.cc", "-DKERNEL_TET")], False, ["asan", "fast"]),
    "meshmc_hex": ([("meshmc/meshmc_main.cc", "-DKERNEL_HEX")], False, ["asan", "fast"]),
    "regmc": ([("regmc/regmc_main.cc", "")], False, ["asan"]),
    "ovmio": ([("ovmio/ovmio_main.cc", ""), ("ovmio/ovmio_lib.cc", "")], True, ["asan", "fast"]),
    "vecmc": ([("vecmc/vecmc_main.cc", "")], False, ["asan", "fast"]),
    "handlemc": ([("vecmc/handlemc_main.cc", "")], False, ["fast"]),
    "thrmc_sched": ([("thrmc/thrmc_main.cc", "-DTHRMC_SCHED"), ("thrmc/sched.cc", "NOINSTR")], False, ["sched"]),
    "thrmc_tsan": ([("thrmc/thrmc_main.cc", "-DTHRMC_FREE")], False, ["tsan"]),
}


def sh(cmd, **kw):
    return subprocess.run(cmd, shell=True, **kw)


def main():
    if len(sys.argv) < 2 or sys.argv[1] not in CFGS:
        print("usage: build.py <asan|fast|tsan|sched> [target...]", file=sys.stderr)
        return 2
    cfg = sys.argv[1]
    targets = sys.argv[2:] or [t for t, v in TARGETS.items() if cfg in v[2]]
    tag = "" if REPO == "/repo" else hashlib.sha1(REPO.encode()).hexdigest()[:8] + "-"
    root = os.path.join(VERIF, "build")
    B = os.path.join(root, tag + cfg)
    os.makedirs(B, exist_ok=True)

    # generated headers: configure-only cmake run (once per repo path; refreshed
    # when a CMakeLists.txt / *.in is newer than the stamp)
    G = os.path.join(root, tag + "cmakecfg")
    stamp = os.path.join(G, "src/OpenVolumeMesh/Config/Export.hh")
    ins = [os.path.join(REPO, "CMakeLists.txt"), os.path.join(REPO, "src/CMakeLists.txt"),
           os.path.join(REPO, "src/OpenVolumeMesh/Config/Version.hh.in"),
           os.path.join(REPO, "src/OpenVolumeMesh/Config/DeprecationConfig.hh.in")]
    need = not os.path.exists(stamp) or any(
        os.path.exists(i) and os.path.getmtime(i) > os.path.getmtime(stamp) for i in ins)
    if need:
        r = sh(f"cmake -S {REPO} -B {G} -DOVM_ENABLE_UNITTESTS=OFF -DOVM_ENABLE_APPLICATIONS=OFF "
               f"-DOVM_ENABLE_EXAMPLES=OFF -DOVM_BUILD_DOCUMENTATION=OFF -DCMAKE_BUILD_TYPE=RelWithDebInfo "
               f"> {G}.log 2>&1")
        if r.returncode != 0 or not os.path.exists(stamp):
            fb = os.path.join(REPO, "_build/src/OpenVolumeMesh/Config/Export.hh")
            if os.path.exists(fb):
                os.makedirs(os.path.dirname(stamp), exist_ok=True)
                sh(f"cp {os.path.dirname(fb)}/*.hh {os.path.dirname(stamp)}/")
            else:
                print(open(G + ".log").read()[-3000:], file=sys.stderr)
                print("BUILD-ERROR: cmake configure failed", file=sys.stderr)
                return 3
        os.utime(stamp)

    # library source list from the repository's own CMakeLists
    txt = open(os.path.join(REPO, "src/CMakeLists.txt")).read()
    m = re.search(r"SET\s*\(\s*SOURCE_FILES(.*?)\)", txt, re.S | re.I)
    srcs = [s for s in m.group(1).split() if s.endswith(".cc")]

    c = CFGS[cfg]
    # flag stamps: objects are rebuilt when their compile flags change
    for nm in ("lib", "har"):
        fp = os.path.join(B, ".flags_" + nm)
        if not os.path.exists(fp) or open(fp).read() != c[nm]:
            open(fp, "w").write(c[nm])
    inc = f"-I{REPO}/src -I{G}/src -I{VERIF}/engines"
    mk = [f"CXX={c['cxx']}", f"B={B}", ""]
    core_objs, full_objs = [], []
    for s in srcs:
        o = f"$(B)/lib/{s[:-3]}.o"
        full_objs.append(o)
        if not s.endswith("IO/PropertyCodecs.cc"):
            core_objs.append(o)
        mk.append(f"{o}: {REPO}/src/{s} $(B)/.flags_lib\n\t@mkdir -p $(dir $@)\n\t$(CXX) {c['lib']} {inc} -MMD -MP -c $< -o $@\n")
    mk.append(f"$(B)/libovm_core.a: {' '.join(core_objs)}\n\t@rm -f $@\n\tar rcs $@ $^\n")
    mk.append(f"$(B)/libovm_full.a: {' '.join(full_objs)}\n\t@rm -f $@\n\tar rcs $@ $^\n")
    alls = []
    for t in targets:
        if t in ("libcore", "libfull"):
            alls.append("$(B)/libovm_core.a" if t == "libcore" else "$(B)/libovm_full.a")
            continue
        if t not in TARGETS or cfg not in TARGETS[t][2]:
            print(f"unknown target {t} for cfg {cfg}", file=sys.stderr)
            return 2
        parts, io, _ = TARGETS[t]
        objs = []
        for src, fl in parts:
            o = f"$(B)/h/{t}/{os.path.basename(src)[:-3]}.o"
            objs.append(o)
            flags = c["har"] + " " + fl
            if fl == "NOINSTR":
                flags = COMMON + " -O1 -g1"
            mk.append(f"{o}: {VERIF}/engines/{src} $(B)/.flags_har\n\t@mkdir -p $(dir $@)\n\t$(CXX) {flags} {inc} -MMD -MP -c $< -o $@\n")
        lib = "$(B)/libovm_full.a" if io else "$(B)/libovm_core.a"
        mk.append(f"$(B)/{t}: {' '.join(objs)} {lib}\n\t$(CXX) {c['ld']} -o $@ {' '.join(objs)} {lib} -pthread\n")
        alls.append(f"$(B)/{t}")
    mk.insert(2, f"all: {' '.join(alls)}\n")
    mk.append("-include $(shell find $(B) -name '*.d' 2>/dev/null)\n")
    open(os.path.join(B, "Makefile"), "w").write("\n".join(mk))
    r = sh(f"make -s -j{os.cpu_count()} -f {B}/Makefile all > {B}/make.log 2>&1")
    if r.returncode != 0:
        print(open(f"{B}/make.log").read()[-6000:], file=sys.stderr)
        print("BUILD-ERROR: make failed", file=sys.stderr)
        return 3
    return 0


if __name__ == "__main__":
    sys.exit(main())
