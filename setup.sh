#!/bin/bash
# Build every harness configuration once from /repo's working tree (offline; only files on disk).
set -e
cd "$(dirname "$0")"
./build.sh fast
./build.sh asan
./build.sh sched
./build.sh tsan
