"""Job tables: which exhaustive jobs decide which property, per tier (bounds of DESIGN.md section 5)."""

COMMON_ASSUMPTIONS = [
    "reference configuration: -DNDEBUG (the shipped RelWithDebInfo configuration), g++ 12, libstdc++ with _GLIBCXX_ASSERTIONS",
    "bounded verdict: nothing outside the stated seeds / depths / alphabets / size caps is covered",
    "VERIF_SEED only permutes the start order of independent jobs",
]

# alphabet bits (engines/meshmc/menu.hh)
A_ADDV, A_ADDE, A_ADDF, A_ADDC, A_SET, A_DEL, A_SWAP, A_GC, A_CLEAR, A_MODE, A_BU, A_PROP, A_ADDFHE, A_ADDCV = [1 << i for i in range(14)]
A_FULL = A_ADDV | A_ADDE | A_ADDF | A_ADDC | A_SET | A_DEL | A_SWAP | A_GC | A_CLEAR | A_MODE | A_BU | A_ADDFHE
A_RESTRICTED = A_DEL | A_SWAP | A_GC | A_MODE | A_BU
A_DELETION = A_ADDV | A_ADDE | A_ADDF | A_ADDC | A_DEL | A_GC | A_CLEAR | A_MODE

SEEDS = {
    "poly": ["S0", "S1", "S2", "S3", "S4a", "S4b", "S5", "S6", "S7", "S8", "S9a", "S9b", "S10a", "S10b", "S11", "S12", "S13",
             "S14", "S15", "S16", "S17", "S18a", "S18b", "S18c", "S19"],
    "tet": ["S0", "S1", "S2", "S3", "S4a", "S4b", "S6", "S7", "S8", "S9a", "S9b", "S10a", "S10b", "S11", "S18a", "S18b", "S18c", "S19"],
    "hex": ["S0", "S1", "S2", "S14", "S15", "S16"],
}
SMALL = ["S0", "S1", "S2", "S3", "S4a", "S4b", "S5"]
MEDIUM = ["S6", "S7", "S10b", "S11", "S12", "S17", "S18a", "S19"]
MODES = ["d1f1", "d1f0", "d0f1", "d0f0"]
ALLBU = "v1e1f1"


def cfgstr(mode, bu=ALLBU, props=0):
    return "%s%sp%d" % (mode, bu, props)


def mesh_job(prop, kernel, seed, cfg, alpha, depth, alpha2=0, depth2=0, caps=None, bcfg="asan", deadline=400, known=()):
    jid = "%s-%s-%s-%s-a%dd%d-a%dd%d-%s" % (prop, kernel, seed, cfg, alpha, depth, alpha2, depth2, bcfg)
    base = ["--prop", prop, "--seed", seed, "--cfg", cfg]
    args = base + ["--alpha", str(alpha), "--depth", str(depth), "--alpha2", str(alpha2), "--depth2", str(depth2),
                   "--deadline", str(deadline)]
    if caps:
        args += ["--caps", caps]
    if known:
        args += ["--known", ",".join(known)]
    return {"id": jid, "cfg": bcfg, "bin": "meshmc_" + kernel, "args": args, "replay_args": base + (["--caps", caps] if caps else []),
            "timeout": deadline + 120}


A_SWAPFEW = 1 << 14
A_R2 = A_DEL | A_SWAPFEW | A_GC | A_MODE | A_BU          # second-level alphabet (all swap pairs are C17's business)
A_R2NB = A_DEL | A_SWAPFEW | A_GC | A_MODE                 # ... without incidence toggles
BUSETS = ["v%de%df%d" % (v, e, f) for v in (0, 1) for e in (0, 1) for f in (0, 1)]


def seed_class(seed):
    return "small" if seed in SMALL else "medium" if seed in MEDIUM else "large"


def tiered(prop, tier, known, plan, kernels=("poly", "tet", "hex"), modes=MODES, busets=(ALLBU,), props=0, bcfg="fast",
           seeds=None, asan_plan=None, asan_cfgs=(("d1f1", ALLBU), ("d0f0", ALLBU))):
    """plan[tier][class] = (alpha, depth, alpha2, depth2) or None"""
    js = []
    dl = 300 if tier == "quick" else 3000
    for kernel in kernels:
        for seed in SEEDS[kernel]:
            if seeds is not None and seed not in seeds:
                continue
            cls = seed_class(seed)
            pl = plan[tier].get(cls)
            if pl:
                for mode in modes:
                    for bu in busets:
                        js.append(mesh_job(prop, kernel, seed, cfgstr(mode, bu, props), pl[0], pl[1], pl[2], pl[3], bcfg=bcfg, deadline=dl, known=known))
            if asan_plan and asan_plan[tier].get(cls):
                pl = asan_plan[tier][cls]
                for mode, bu in asan_cfgs:
                    js.append(mesh_job(prop, kernel, seed, cfgstr(mode, bu, props), pl[0], pl[1], pl[2], pl[3], bcfg="asan", deadline=dl, known=known))
    return js


STATE_PLAN = {
    "quick": {"small": (A_FULL, 2, A_R2, 3), "medium": (A_FULL, 1, A_R2, 2), "large": (A_FULL, 1, 0, 0)},
    "thorough": {"small": (A_FULL, 3, A_R2, 4), "medium": (A_FULL, 2, A_R2, 3), "large": (A_FULL, 1, A_R2, 2)},
}
ASAN_PLAN = {
    "quick": {"small": (A_FULL, 1, 0, 0), "medium": (A_FULL, 1, 0, 0), "large": (A_R2, 1, 0, 0)},
    "thorough": {"small": (A_FULL, 2, 0, 0), "medium": (A_FULL, 1, A_R2, 2), "large": (A_R2, 1, 0, 0)},
}


def jobs_state(prop):
    return lambda tier, known: tiered(prop, tier, known, STATE_PLAN, asan_plan=ASAN_PLAN)


TRANS_PLAN = {
    "quick": {"small": (A_FULL, 2, A_R2, 3), "medium": (A_FULL, 1, A_R2, 2), "large": (A_FULL, 1, 0, 0)},
    "thorough": {"small": (A_FULL, 3, A_R2, 4), "medium": (A_FULL, 2, A_R2, 3), "large": (A_FULL, 1, A_R2, 2)},
}


def jobs_c02(tier, known):
    # deletion-centric alphabet; all incidence subsets on a reduced seed list
    plan = {"quick": {"small": (A_DELETION, 3, 0, 0), "medium": (A_DELETION, 1, A_R2NB, 3), "large": (A_DELETION, 1, A_R2NB, 2)},
            "thorough": {"small": (A_DELETION, 4, 0, 0), "medium": (A_DELETION, 2, A_R2NB, 4), "large": (A_DELETION, 1, A_R2NB, 3)}}
    js = tiered("C02", tier, known, plan, asan_plan=ASAN_PLAN)
    bu_plan = {"quick": {"small": (A_DELETION, 2, 0, 0), "medium": (A_DELETION, 1, A_R2NB, 2), "large": None},
               "thorough": {"small": (A_DELETION, 3, 0, 0), "medium": (A_DELETION, 1, A_R2NB, 3), "large": (A_DELETION, 1, A_R2NB, 2)}}
    js += tiered("C02", tier, known, bu_plan, busets=[b for b in BUSETS if b != ALLBU])
    return js


def jobs_c03(tier, known):
    plan = {"quick": {"small": (A_FULL | A_PROP, 2, A_R2, 3), "medium": (A_FULL | A_PROP, 1, A_R2 | A_PROP, 2), "large": (A_FULL | A_PROP, 1, 0, 0)},
            "thorough": {"small": (A_FULL | A_PROP, 3, A_R2, 4), "medium": (A_FULL | A_PROP, 2, A_R2 | A_PROP, 3), "large": (A_FULL | A_PROP, 1, A_R2 | A_PROP, 2)}}
    return tiered("C03", tier, known, plan, props=1, asan_plan=ASAN_PLAN)


def jobs_c17(tier, known):
    A_SW = A_SWAP
    plan = {"quick": {"small": (A_FULL, 1, A_SW, 2), "medium": (A_R2NB | A_ADDV | A_ADDE, 1, A_SW, 2), "large": (A_SW, 1, 0, 0)},
            "thorough": {"small": (A_FULL, 2, A_SW, 3), "medium": (A_FULL, 1, A_SW | A_DEL, 3), "large": (A_R2NB, 1, A_SW, 2)}}
    js = tiered("C17", tier, known, plan, props=1, asan_plan={"quick": {"small": (A_SW, 1, 0, 0), "medium": (A_SW, 1, 0, 0), "large": None},
                                                              "thorough": {"small": (A_SW, 2, 0, 0), "medium": (A_SW, 1, 0, 0), "large": (A_SW, 1, 0, 0)}})
    bu_plan = {"quick": {"small": (A_SW, 1, 0, 0), "medium": (A_SW, 1, 0, 0), "large": None},
               "thorough": {"small": (A_R2NB, 1, A_SW, 2), "medium": (A_R2NB, 1, A_SW, 2), "large": (A_SW, 1, 0, 0)}}
    js += tiered("C17", tier, known, bu_plan, props=1, busets=[b for b in BUSETS if b != ALLBU], modes=["d1f1", "d0f0"] if tier == "quick" else MODES)
    return js


def jobs_c12(tier, known):
    plan = {"quick": {"small": (A_FULL, 2, 0, 0), "medium": (A_FULL, 1, 0, 0), "large": (A_R2, 1, 0, 0)},
            "thorough": {"small": (A_FULL, 2, A_R2, 3), "medium": (A_FULL, 1, A_R2, 2), "large": (A_FULL, 1, 0, 0)}}
    js = tiered("C12", tier, known, plan, busets=BUSETS, props=1)
    deep = {"quick": {"small": None, "medium": (A_FULL, 1, A_R2, 2), "large": None},
            "thorough": {"small": None, "medium": (A_FULL, 2, A_R2, 3), "large": (A_FULL, 1, A_R2, 2)}}
    js += tiered("C12", tier, known, deep, busets=["v0e0f0", "v1e0f1", "v1e1f0", "v0e1f1"], modes=["d1f1", "d0f0"], props=1,
                 seeds=["S7", "S11", "S17", "S18a"] if tier == "quick" else None)
    asan = {"quick": {"small": (A_FULL, 1, 0, 0), "medium": (A_FULL, 1, 0, 0), "large": (A_R2, 1, 0, 0)},
            "thorough": {"small": (A_FULL, 2, 0, 0), "medium": (A_FULL, 1, A_R2, 2), "large": (A_FULL, 1, 0, 0)}}
    js += tiered("C12", tier, known, {"quick": {}, "thorough": {}}, props=1, asan_plan=asan,
                 asan_cfgs=(("d1f1", "v0e0f0"), ("d0f0", "v0e0f0"), ("d0f1", "v1e0f1"), ("d1f0", "v1e1f0"), ("d0f0", "v0e1f1")))
    return js


E1_ASSUME = ["states are operation histories replayed on fresh objects; deduplicated on a key of all concrete fields",
             "size caps: <= 8 vertices, 16 edges, 12 faces, 4 cells for additions (seeds may be larger)",
             "no halfface is ever used by two live cells (excluded by the property); arguments are always valid handles"]

def mc(jobs, bounds_q, bounds_t, extra=None, **kw):
    d = {"jobs": jobs, "level": "model_checking", "assumptions": E1_ASSUME + (extra or []), "bounds": {"quick": bounds_q, "thorough": bounds_t}}
    d.update(kw)
    return d


B_STATE_Q = "all seeds x 3 kernels x 4 deletion modes: full alphabet depth 2 + reduced alphabet depth 3 (small seeds), depth 1 + 2 (medium), depth 1 (large); ASan+UBSan pass depth 1"
B_STATE_T = "full alphabet depth 3 + reduced depth 4 (small), 2 + 3 (medium), 1 + 2 (large); ASan+UBSan pass depth 1-2"

PROPS = {
    "C01": mc(jobs_state("C01"), B_STATE_Q, B_STATE_T),
    "C02": mc(jobs_c02, "deletion alphabet (adds, deletes, gc, clear, mode switches) depth 3 (small), 1+3 (medium), 1+2 (large) x 4 modes; 7 partial incidence subsets depth 2 / 1+2",
              "depth 4 (small), 2+4 (medium), 1+3 (large); incidence subsets depth 3 / 1+3 / 1+2"),
    "C03": mc(jobs_c03, B_STATE_Q + "; 5 typed properties (int private, bool shared, double persistent, string private-named, Vec3d shared) on all 6 entity kinds + mesh property + one property created mid-history",
              B_STATE_T),
    "C05": mc(jobs_state("C05"), B_STATE_Q + "; every centre x 26 circulators x laps 1..3 x every step count", B_STATE_T),
    "C08": mc(jobs_state("C08"), B_STATE_Q, B_STATE_T),
    "C09": mc(jobs_state("C09"), B_STATE_Q, B_STATE_T),
    "C10": mc(jobs_state("C10"), B_STATE_Q + "; all ordered vertex pairs/triples(/4-tuples), all halfedge pairs, all (cell, ...) combinations per state", B_STATE_T),
    "C12": mc(jobs_c12, "8 incidence subsets x 4 deletion modes x all seeds x 3 kernels: full alphabet depth 2 (small), depth 1 (medium/large) + depth 1+2 on 4 seeds x 8 configs; ASan+UBSan depth 1 on 5 configs",
              "depth 2+3 (small), 1+2 (medium), 1 (large) on all 32 configs; deep 2+3 / 1+2 on 8 configs", extra=[
                  "differential oracle: a twin mesh with all incidences permanently enabled executes the same history (handle for handle) minus the toggles",
                  "add_face(vertices) over parallel live edges is left out (which parallel edge is reused is unspecified and configuration-dependent)"]),
    "C17": mc(jobs_c17, "every ordered pair (a<=b) of slots of each kind incl. deleted ones, in every state of: full alphabet depth 1 (small), reduced depth 1 (medium), seed only (large) x 4 modes; 7 partial incidence subsets on seed states",
              "states of depth 2 (small) / 1 (medium, large); partial incidence subsets after one more operation"),
}

NOT_YET = {}
ENGINES = [
    {"name": "meshmc", "path": "engines/meshmc", "serves_properties": ["C01", "C02", "C03", "C04", "C05", "C08", "C09", "C10", "C11", "C12", "C13", "C15", "C16", "C17"],
     "kind_free_text": "explicit-state BFS over operation histories of the real mesh kernels, label-space reference model + brute-force incidence oracle"},
]
