"""Job tables: which exhaustive jobs decide which property, per tier (bounds of DESIGN.md section 5)."""

COMMON_ASSUMPTIONS = [
    "reference configuration: -DNDEBUG (the shipped RelWithDebInfo configuration), g++ 12, libstdc++ with _GLIBCXX_ASSERTIONS",
    "bounded verdict: nothing outside the stated seeds / depths / alphabets / size caps is covered",
    "VERIF_SEED only permutes the start order of independent jobs",
]

# alphabet bits (engines/meshmc/menu.hh)
A_ADDV, A_ADDE, A_ADDF, A_ADDC, A_SET, A_DEL, A_SWAP, A_GC, A_CLEAR, A_MODE, A_BU, A_PROP, A_ADDFHE, A_ADDCV = [1 << i for i in range(14)]
A_FULL = A_ADDV | A_ADDE | A_ADDF | A_ADDC | A_SET | A_DEL | A_SWAP | A_GC | A_CLEAR | A_MODE | A_BU | A_ADDFHE
A_RESTRICTED = A_DEL | A_SWAP | A_GC | A_MODE | A_BU
A_DELETION = A_ADDV | A_ADDE | A_ADDF | A_ADDC | A_DEL | A_GC | A_CLEAR | A_MODE

SEEDS = {
    "poly": ["S0", "S1", "S2", "S3", "S4a", "S4b", "S5", "S6", "S7", "S8", "S9a", "S9b", "S10a", "S10b", "S11", "S12", "S13",
             "S14", "S15", "S16", "S17", "S18a", "S18b", "S18c", "S19"],
    "tet": ["S0", "S1", "S2", "S3", "S4a", "S4b", "S6", "S7", "S8", "S9a", "S9b", "S10a", "S10b", "S11", "S18a", "S18b", "S18c", "S19"],
    "hex": ["S0", "S1", "S2", "S14", "S15", "S16"],
}
SMALL = ["S0", "S1", "S2", "S3", "S4a", "S4b", "S5"]
MEDIUM = ["S6", "S7", "S10b", "S11", "S12", "S17", "S18a", "S19"]
MODES = ["d1f1", "d1f0", "d0f1", "d0f0"]
ALLBU = "v1e1f1"


def cfgstr(mode, bu=ALLBU, props=0):
    return "%s%sp%d" % (mode, bu, props)


def mesh_job(prop, kernel, seed, cfg, alpha, depth, alpha2=0, depth2=0, caps=None, bcfg="asan", deadline=400, known=()):
    jid = "%s-%s-%s-%s-a%dd%d-a%dd%d-%s" % (prop, kernel, seed, cfg, alpha, depth, alpha2, depth2, bcfg)
    base = ["--prop", prop, "--seed", seed, "--cfg", cfg]
    args = base + ["--alpha", str(alpha), "--depth", str(depth), "--alpha2", str(alpha2), "--depth2", str(depth2),
                   "--deadline", str(deadline)]
    if caps:
        args += ["--caps", caps]
    if known:
        args += ["--known", ",".join(known)]
    return {"id": jid, "cfg": bcfg, "bin": "meshmc_" + kernel, "args": args, "replay_args": base + (["--caps", caps] if caps else []),
            "timeout": deadline + 120}


def jobs_c01(tier, known):
    js = []
    dl = 300 if tier == "quick" else 3000
    for kernel in ("poly", "tet", "hex"):
        for seed in SEEDS[kernel]:
            for mode in MODES:
                cfg = cfgstr(mode)
                if tier == "quick":
                    if seed in SMALL:
                        js.append(mesh_job("C01", kernel, seed, cfg, A_FULL, 2, A_RESTRICTED, 3, bcfg="fast", deadline=dl, known=known))
                    elif seed in MEDIUM:
                        js.append(mesh_job("C01", kernel, seed, cfg, A_FULL, 1, A_RESTRICTED, 2, bcfg="fast", deadline=dl, known=known))
                    else:
                        js.append(mesh_job("C01", kernel, seed, cfg, A_FULL, 1, bcfg="fast", deadline=dl, known=known))
                else:
                    if seed in SMALL:
                        js.append(mesh_job("C01", kernel, seed, cfg, A_FULL, 3, A_RESTRICTED, 5, bcfg="fast", deadline=dl, known=known))
                    elif seed in MEDIUM:
                        js.append(mesh_job("C01", kernel, seed, cfg, A_FULL, 2, A_RESTRICTED, 3, bcfg="fast", deadline=dl, known=known))
                    else:
                        js.append(mesh_job("C01", kernel, seed, cfg, A_FULL, 1, A_RESTRICTED, 2, bcfg="fast", deadline=dl, known=known))
        # sanitizer pass (ASan+UBSan): shallower, same oracles
        for seed in SEEDS[kernel]:
            js.append(mesh_job("C01", kernel, seed, cfgstr("d1f1"), A_FULL, 1, bcfg="asan", deadline=dl, known=known))
            js.append(mesh_job("C01", kernel, seed, cfgstr("d0f0"), A_FULL, 1, bcfg="asan", deadline=dl, known=known))
    return js


E1_ASSUME = ["states are operation histories replayed on fresh objects; deduplicated on a key of all concrete fields",
             "size caps: <= 8 vertices, 16 edges, 12 faces, 4 cells for additions (seeds may be larger)",
             "no halfface is ever used by two live cells (excluded by the property); arguments are always valid handles"]

PROPS = {
    "C01": {"jobs": jobs_c01, "level": "model_checking", "assumptions": E1_ASSUME,
            "bounds": {"quick": "25 seeds x 3 kernels x 4 deletion modes; depth 2 full alphabet + depth 3 restricted on small seeds, depth 1(+2 restricted) on larger ones; ASan pass depth 1",
                       "thorough": "depth 3 full + 5 restricted on small seeds; depth 2 full + 3 restricted on medium; depth 1+2 on large"}},
}

NOT_YET = {}
ENGINES = [
    {"name": "meshmc", "path": "engines/meshmc", "serves_properties": ["C01", "C02", "C03", "C04", "C05", "C08", "C09", "C10", "C11", "C12", "C13", "C15", "C16", "C17"],
     "kind_free_text": "explicit-state BFS over operation histories of the real mesh kernels, label-space reference model + brute-force incidence oracle"},
]
