"""Job tables: which exhaustive jobs decide which property, per tier (bounds of DESIGN.md section 5)."""

COMMON_ASSUMPTIONS = [
    "reference configuration: -DNDEBUG (the shipped RelWithDebInfo configuration), g++ 12, libstdc++ with _GLIBCXX_ASSERTIONS",
    "bounded verdict: nothing outside the stated seeds / depths / alphabets / size caps is covered",
    "VERIF_SEED only permutes the start order of independent jobs",
]

# alphabet bits (engines/meshmc/menu.hh)
A_ADDV, A_ADDE, A_ADDF, A_ADDC, A_SET, A_DEL, A_SWAP, A_GC, A_CLEAR, A_MODE, A_BU, A_PROP, A_ADDFHE, A_ADDCV = [1 << i for i in range(14)]
A_FULL = A_ADDV | A_ADDE | A_ADDF | A_ADDC | A_SET | A_DEL | A_SWAP | A_GC | A_CLEAR | A_MODE | A_BU | A_ADDFHE
A_RESTRICTED = A_DEL | A_SWAP | A_GC | A_MODE | A_BU
A_DELETION = A_ADDV | A_ADDE | A_ADDF | A_ADDC | A_DEL | A_GC | A_CLEAR | A_MODE

SEEDS = {
    "poly": ["S0", "S1", "S2", "S3", "S4a", "S4b", "S5", "S6", "S7", "S8", "S9a", "S9b", "S10a", "S10b", "S11", "S12", "S13",
             "S14", "S15", "S16", "S17", "S18a", "S18b", "S18c", "S19"],
    "tet": ["S0", "S1", "S2", "S3", "S4a", "S4b", "S6", "S7", "S8", "S9a", "S9b", "S10a", "S10b", "S11", "S18a", "S18b", "S18c", "S19"],
    "hex": ["S0", "S1", "S2", "S14", "S15", "S16"],
}
SMALL = ["S0", "S1", "S2", "S3", "S4a", "S4b", "S5"]
MEDIUM = ["S6", "S7", "S10b", "S11", "S12", "S17", "S18a", "S19"]
MODES = ["d1f1", "d1f0", "d0f1", "d0f0"]
ALLBU = "v1e1f1"


def cfgstr(mode, bu=ALLBU, props=0):
    return "%s%sp%d" % (mode, bu, props)


def mesh_job(prop, kernel, seed, cfg, alpha, depth, alpha2=0, depth2=0, caps=None, bcfg="asan", deadline=400, known=(), warm=False):
    # depth2 is the TOTAL depth up to which the second alphabet is applied (levels depth+1 .. depth2): a second phase that can never
    # run is a configuration error (it once made the C16 tuple job vacuous)
    assert alpha2 == 0 or depth2 > depth, (prop, seed, alpha2, depth, depth2)
    jid = "%s-%s-%s-%s-a%dd%d-a%dd%d-%s" % (prop, kernel, seed, cfg, alpha, depth, alpha2, depth2, bcfg)
    base = ["--prop", prop, "--seed", seed, "--cfg", cfg]
    args = base + ["--alpha", str(alpha), "--depth", str(depth), "--alpha2", str(alpha2), "--depth2", str(depth2),
                   "--deadline", str(deadline)]
    if caps:
        args += ["--caps", caps]
    if known:
        args += ["--known", ",".join(known)]
    if warm:
        args += ["--warm", "1"]
        jid += "-warm"
    return {"id": jid, "cfg": bcfg, "bin": "meshmc_" + kernel, "args": args, "replay_args": base + (["--caps", caps] if caps else []),
            "timeout": deadline + 120}


A_SWAPFEW = 1 << 14
A_R2 = A_DEL | A_SWAPFEW | A_GC | A_MODE | A_BU          # second-level alphabet (all swap pairs are C17's business)
A_R2NB = A_DEL | A_SWAPFEW | A_GC | A_MODE                 # ... without incidence toggles
BUSETS = ["v%de%df%d" % (v, e, f) for v in (0, 1) for e in (0, 1) for f in (0, 1)]


def seed_class(seed):
    return "small" if seed in SMALL else "medium" if seed in MEDIUM else "large"


def tiered(prop, tier, known, plan, kernels=("poly", "tet", "hex"), modes=MODES, busets=(ALLBU,), props=0, bcfg="fast",
           seeds=None, asan_plan=None, asan_cfgs=(("d1f1", ALLBU), ("d0f0", ALLBU)), heavy=(), warm=False):
    """plan[tier][class] = (alpha, depth, alpha2, depth2) or None; seeds listed in `heavy` keep the quick bounds in the thorough tier
    (measured: one more level does not complete within the per-job deadline for them)"""
    js = []
    dl = 300 if tier == "quick" else 600
    for kernel in kernels:
        for seed in SEEDS[kernel]:
            if seeds is not None and seed not in seeds:
                continue
            cls = seed_class(seed)
            ptier = "quick" if (tier == "thorough" and seed in heavy) else tier
            pl = plan[ptier].get(cls)
            if pl:
                for mode in modes:
                    for bu in busets:
                        js.append(mesh_job(prop, kernel, seed, cfgstr(mode, bu, props), pl[0], pl[1], pl[2], pl[3], bcfg=bcfg, deadline=dl, known=known, warm=warm))
            if asan_plan and asan_plan[ptier].get(cls):
                pl = asan_plan[ptier][cls]
                for mode, bu in asan_cfgs:
                    js.append(mesh_job(prop, kernel, seed, cfgstr(mode, bu, props), pl[0], pl[1], pl[2], pl[3], bcfg="asan", deadline=dl, known=known))
    return js


STATE_PLAN = {
    "quick": {"small": (A_FULL, 2, A_R2, 3), "medium": (A_FULL, 1, A_R2, 2), "large": (A_FULL, 1, 0, 0)},
    "thorough": {"small": (A_FULL, 2, A_R2, 4), "medium": (A_FULL, 1, A_R2, 3), "large": (A_FULL, 1, A_R2, 2)},
}
# thorough only: one more level of the FULL alphabet (no second phase)
STATE_PLAN_B = {"quick": {}, "thorough": {"small": (A_FULL, 3, 0, 0), "medium": (A_FULL, 2, 0, 0)}}
ASAN_PLAN = {
    "quick": {"small": (A_FULL, 1, 0, 0), "medium": (A_FULL, 1, 0, 0), "large": (A_R2, 1, 0, 0)},
    "thorough": {"small": (A_FULL, 2, 0, 0), "medium": (A_FULL, 1, A_R2, 2), "large": (A_R2, 1, 0, 0)},
}


# "warm" jobs: the query battery runs on the same object before and after every operation (query -> mutate -> query), so that state
# left behind by a const query (a cache that is not invalidated, a scratch buffer) becomes visible; the plain jobs execute every
# transition on a fresh replay and would never see it
WARM_PLAN = {"quick": {"small": (A_FULL, 2, 0, 0), "medium": (A_FULL, 1, 0, 0), "large": (A_R2, 1, 0, 0)},
             "thorough": {"small": (A_FULL, 2, 0, 0), "medium": (A_FULL, 1, A_R2, 2), "large": (A_FULL, 1, 0, 0)}}


def jobs_state(prop, heavy=("S2",), plan_b=True):
    return lambda tier, known: (tiered(prop, tier, known, STATE_PLAN, asan_plan=ASAN_PLAN, heavy=heavy)
                                + (tiered(prop, tier, known, STATE_PLAN_B, modes=["d1f1", "d0f0"], seeds=[x for x in SMALL + MEDIUM if x not in heavy]) if plan_b else [])
                                + tiered(prop, tier, known, WARM_PLAN, modes=["d1f1", "d0f0"], warm=True))


TRANS_PLAN = {
    "quick": {"small": (A_FULL, 2, A_R2, 3), "medium": (A_FULL, 1, A_R2, 2), "large": (A_FULL, 1, 0, 0)},
    "thorough": {"small": (A_FULL, 2, A_R2, 4), "medium": (A_FULL, 1, A_R2, 3), "large": (A_FULL, 1, A_R2, 2)},
}


def jobs_c02(tier, known):
    # deletion-centric alphabet; all incidence subsets on a reduced seed list
    plan = {"quick": {"small": (A_DELETION, 3, 0, 0), "medium": (A_DELETION, 1, A_R2NB, 3), "large": (A_DELETION, 1, A_R2NB, 2)},
            "thorough": {"small": (A_DELETION, 3, A_R2NB, 4), "medium": (A_DELETION, 1, A_R2NB, 4), "large": (A_DELETION, 1, A_R2NB, 3)}}
    js = tiered("C02", tier, known, plan, asan_plan=ASAN_PLAN, heavy=("S7", "S10b", "S11", "S16", "S18a", "S19"))
    bu_plan = {"quick": {"small": (A_DELETION, 2, 0, 0), "medium": (A_DELETION, 1, A_R2NB, 2), "large": None},
               "thorough": {"small": (A_DELETION, 2, A_R2NB, 3), "medium": (A_DELETION, 1, A_R2NB, 3), "large": (A_DELETION, 1, A_R2NB, 2)}}
    js += tiered("C02", tier, known, bu_plan, busets=[b for b in BUSETS if b != ALLBU], heavy=("S7", "S10b", "S11", "S16", "S18a", "S19"))
    return js


def jobs_c03(tier, known):
    plan = {"quick": {"small": (A_FULL | A_PROP, 2, A_R2, 3), "medium": (A_FULL | A_PROP, 1, A_R2 | A_PROP, 2), "large": (A_FULL | A_PROP, 1, 0, 0)},
            "thorough": {"small": (A_FULL | A_PROP, 2, A_R2, 4), "medium": (A_FULL | A_PROP, 1, A_R2 | A_PROP, 3), "large": (A_FULL | A_PROP, 1, A_R2 | A_PROP, 2)}}
    return tiered("C03", tier, known, plan, props=1, asan_plan=ASAN_PLAN, heavy=("S2", "S4a", "S4b", "S5", "S10b", "S11", "S19"))


def jobs_c17(tier, known):
    A_SW = A_SWAP
    plan = {"quick": {"small": (A_FULL, 1, A_SW, 2), "medium": (A_R2NB | A_ADDV | A_ADDE, 1, A_SW, 2), "large": (A_SW, 1, 0, 0)},
            "thorough": {"small": (A_FULL, 2, A_SW, 3), "medium": (A_FULL, 1, A_SW, 2), "large": (A_R2NB, 1, A_SW, 2)}}
    js = tiered("C17", tier, known, plan, props=1, heavy=("S16",), asan_plan={"quick": {"small": (A_SW, 1, 0, 0), "medium": (A_SW, 1, 0, 0), "large": None},
                                                              "thorough": {"small": (A_SW, 2, 0, 0), "medium": (A_SW, 1, 0, 0), "large": (A_SW, 1, 0, 0)}})
    bu_plan = {"quick": {"small": (A_SW, 1, 0, 0), "medium": (A_SW, 1, 0, 0), "large": None},
               "thorough": {"small": (A_R2NB, 1, A_SW, 2), "medium": (A_R2NB, 1, A_SW, 2), "large": (A_SW, 1, 0, 0)}}
    js += tiered("C17", tier, known, bu_plan, props=1, busets=[b for b in BUSETS if b != ALLBU], modes=["d1f1", "d0f0"] if tier == "quick" else MODES)
    # S20: a halfface used by two live cells (the kernel allows it without topology check). All other E1 jobs exclude such states (the
    # incidence structure stores one cell per halfface); for C17 the swaps are run on it because "pure relabeling" is still decidable
    for kernel in ("poly", "tet"):
        for mode in MODES:
            for bu in BUSETS:
                js.append(mesh_job("C17", kernel, "S20", cfgstr(mode, bu, 1), A_SWAP, 2, bcfg="fast", deadline=300 if tier == "quick" else 600, known=known))
    return js


def jobs_c11(tier, known):
    js = []
    dl = 300 if tier == "quick" else 600
    caps = "8,16,12,4,3,4,8" if tier == "quick" else "8,16,12,4,4,5,8"
    for kernel in ("poly", "tet", "hex"):
        for seed in SEEDS[kernel]:
            for mode in (["d1f1", "d0f0"] if tier == "quick" else MODES):
                for bu in ("v1e1f1", "v0e1f1") + (() if tier == "quick" else ("v0e0f0",)):
                    cfg = cfgstr(mode, bu)
                    if kernel == "hex":
                        c = "8,16,12,4,4,%d,7" % (3 if tier == "quick" else 4)  # quads: lists up to 4 halfedges
                    else:
                        c = caps
                    if tier == "quick" or seed_class(seed) == "large":
                        js.append(mesh_job("C11", kernel, seed, cfg, A_ADDCV, 1, caps=c, bcfg="fast", deadline=dl, known=known))
                    else:
                        js.append(mesh_job("C11", kernel, seed, cfg, A_DEL | A_GC, 1, A_ADDCV, 2, caps=c, bcfg="fast", deadline=dl, known=known))
            # ASan pass with shorter lists
            js.append(mesh_job("C11", kernel, seed, cfgstr("d1f1"), A_ADDCV, 1, caps="8,16,12,4,2,3,6", bcfg="asan", deadline=dl, known=known))
    # generic valid-argument histories with the construction alphabet: accepted calls append exactly the given definition
    plan = {"quick": {"small": (A_ADDV | A_ADDE | A_ADDF | A_ADDFHE | A_ADDC, 2, 0, 0), "medium": (A_ADDV | A_ADDE | A_ADDF | A_ADDFHE | A_ADDC, 1, 0, 0), "large": None},
            "thorough": {"small": (A_ADDV | A_ADDE | A_ADDF | A_ADDFHE | A_ADDC, 3, 0, 0), "medium": (A_ADDV | A_ADDE | A_ADDF | A_ADDFHE | A_ADDC, 2, 0, 0), "large": (A_ADDV | A_ADDE | A_ADDF | A_ADDFHE | A_ADDC, 1, 0, 0)}}
    js += tiered("C11", tier, known, plan, modes=["d1f1", "d0f0"], busets=("v1e1f1", "v0e1f1"))
    return js


A_GCOP = 1 << 15
A_PERM = 1 << 17
A_DELC = 1 << 18


def jobs_c04(tier, known):
    js = []
    dl = 300 if tier == "quick" else 600
    marks = 2 if tier == "quick" else 3
    for kernel in ("poly", "tet", "hex"):
        for seed in SEEDS[kernel]:
            cls = seed_class(seed)
            for mode in MODES:
                # quick: all kinds on, all off, and each kind disabled alone (mixed subsets hide guard mix-ups between the kinds)
                busets = [ALLBU, "v0e0f0", "v1e1f0", "v1e0f1", "v0e1f1"] if tier == "quick" else BUSETS
                for bu in busets:
                    m = marks if cls != "large" else marks - 1
                    if tier == "quick" and cls == "large" and (bu != ALLBU or mode in ("d1f0", "d0f1")):
                        continue
                    caps = "8,16,12,4,%d,4,8" % m
                    if tier == "thorough" and cls == "small":
                        js.append(mesh_job("C04", kernel, seed, cfgstr(mode, bu, 1), A_DEL | A_ADDV | A_ADDE, 1, A_GCOP, 2, caps=caps, bcfg="fast", deadline=dl, known=known))
                    else:
                        js.append(mesh_job("C04", kernel, seed, cfgstr(mode, bu, 1), A_GCOP, 1, caps=caps, bcfg="fast", deadline=dl, known=known))
            js.append(mesh_job("C04", kernel, seed, cfgstr("d1f1", ALLBU, 1), A_GCOP, 1, caps="8,16,12,4,1,4,8", bcfg="asan", deadline=dl, known=known))
    return js


def jobs_c13(tier, known):
    plan = {"quick": {"small": (A_FULL, 2, 0, 0), "medium": (A_FULL, 1, A_R2, 2), "large": (A_R2, 1, 0, 0)},
            "thorough": {"small": (A_FULL, 2, A_R2, 3), "medium": (A_FULL, 1, A_R2, 3), "large": (A_FULL, 1, 0, 0)}}
    asan = {"quick": {"small": (A_FULL, 1, 0, 0), "medium": (A_R2, 1, 0, 0), "large": None},
            "thorough": {"small": (A_FULL, 2, 0, 0), "medium": (A_FULL, 1, 0, 0), "large": (A_R2, 1, 0, 0)}}
    js = tiered("C13", tier, known, plan, props=1, asan_plan=asan, heavy=("S2", "S4a", "S4b", "S5") + tuple(MEDIUM))
    js += tiered("C13", tier, known, {"quick": {"small": (A_R2, 1, 0, 0), "medium": (A_R2, 1, 0, 0), "large": None},
                                      "thorough": {"small": (A_FULL, 1, 0, 0), "medium": (A_R2, 1, 0, 0), "large": (A_R2, 1, 0, 0)}},
                 props=1, busets=["v0e0f0", "v1e0f1"], modes=["d1f1", "d0f0"])
    return js


A_COLLAPSE = 1 << 16


def jobs_c15(tier, known):
    full = A_FULL | A_ADDCV | A_COLLAPSE
    r2 = A_R2 | A_ADDCV | A_COLLAPSE
    plan = {"quick": {"small": (full, 2, 0, 0), "medium": (full, 1, r2, 2), "large": (full, 1, 0, 0)},
            "thorough": {"small": (full, 2, r2, 3), "medium": (full, 1, r2, 3), "large": (full, 1, r2, 2)}}
    asan = {"quick": {"small": (full, 1, 0, 0), "medium": (full, 1, 0, 0), "large": (r2, 1, 0, 0)},
            "thorough": {"small": (full, 2, 0, 0), "medium": (full, 1, r2, 2), "large": (full, 1, 0, 0)}}
    return tiered("C15", tier, known, plan, kernels=("tet",), asan_plan=asan, heavy=("S10b", "S11", "S19"))


def jobs_c16(tier, known):
    full = A_FULL | A_ADDCV
    r2 = A_R2 | A_ADDCV
    plan = {"quick": {"small": (full, 2, 0, 0), "medium": (full, 1, r2, 2), "large": (r2, 2, 0, 0)},
            "thorough": {"small": (full, 2, r2, 3), "medium": (full, 1, r2, 3), "large": (r2, 3, 0, 0)}}
    asan = {"quick": {"small": (full, 1, 0, 0), "medium": (full, 1, 0, 0), "large": (r2, 1, 0, 0)},
            "thorough": {"small": (full, 2, 0, 0), "medium": (full, 1, r2, 2), "large": (r2, 2, 0, 0)}}
    js = tiered("C16", tier, known, plan, kernels=("hex",), asan_plan=asan, heavy=("S16",))
    # all 6-tuples over the halffaces of a freed hex surface (all 720 permutations of a valid list among them, every list with
    # repeated halffaces) through the topology-checked add_cell: level 1 = delete_cell of every cell, level 2 = the tuples
    dl = 300 if tier == "quick" else 600
    for seed in ("S14", "S15", "S16"):
        for mode in ("d1f1", "d0f0"):
            js.append(mesh_job("C16", "hex", seed, cfgstr(mode), A_DELC, 1, A_PERM, 2, caps="8,16,12,5,0,6,%d" % (6 if tier == "quick" or seed == "S16" else 7), bcfg="fast", deadline=dl, known=known))
    # the same with a pool of 11 halffaces = the freed surface + other free quad halffaces (outer halffaces of the neighbouring hex),
    # all 6-tuples WITHOUT repetition (332,640 per freed hex): invalid lists that mix two hexes
    for seed, modes in (("S15", ("d0f0",) if tier == "quick" else ("d0f0", "d1f1")),) + ((("S16", ("d0f0",)),) if tier == "thorough" else ()):
        for mode in modes:
            js.append(mesh_job("C16", "hex", seed, cfgstr(mode), A_DELC, 1, A_PERM, 2, caps="8,16,12,5,0,6,%d" % (11 if seed == "S15" else 10), bcfg="fast", deadline=dl, known=known))
    return js


def jobs_c12(tier, known):
    plan = {"quick": {"small": (A_FULL, 2, 0, 0), "medium": (A_FULL, 1, 0, 0), "large": (A_R2, 1, 0, 0)},
            "thorough": {"small": (A_FULL, 2, 0, 0), "medium": (A_FULL, 1, A_R2, 2), "large": (A_FULL, 1, 0, 0)}}
    # the 8 incidence subsets x 4 deletion modes sweep keeps (nearly) the quick bounds in the thorough tier (measured: one more level
    # costs ~30 core-hours); the extra level is spent on the 4 mixed subsets x 2 modes of the `deep` plan
    js = tiered("C12", tier, known, plan, busets=BUSETS, props=1, heavy=tuple(MEDIUM) + ("S16",))
    deep = {"quick": {"small": None, "medium": (A_FULL, 1, A_R2, 2), "large": None},
            "thorough": {"small": (A_FULL, 2, A_R2, 3), "medium": (A_FULL, 1, A_R2, 3), "large": (A_FULL, 1, A_R2, 2)}}
    js += tiered("C12", tier, known, deep, busets=["v0e0f0", "v1e0f1", "v1e1f0", "v0e1f1"], modes=["d1f1", "d0f0"], props=1,
                 seeds=["S7", "S11", "S17", "S18a"] if tier == "quick" else None, heavy=("S2", "S7", "S10b", "S11", "S16", "S18a", "S19"))
    asan = {"quick": {"small": (A_FULL, 1, 0, 0), "medium": (A_FULL, 1, 0, 0), "large": (A_R2, 1, 0, 0)},
            "thorough": {"small": (A_FULL, 2, 0, 0), "medium": (A_FULL, 1, A_R2, 2), "large": (A_FULL, 1, 0, 0)}}
    js += tiered("C12", tier, known, {"quick": {}, "thorough": {}}, props=1, asan_plan=asan,
                 asan_cfgs=(("d1f1", "v0e0f0"), ("d0f0", "v0e0f0"), ("d0f1", "v1e0f1"), ("d1f0", "v1e1f0"), ("d0f0", "v0e1f1")))
    return js


IO_ENV = {"ASAN_OPTIONS": "detect_leaks=0:allocator_may_return_null=1:max_allocation_size_mb=256:abort_on_error=0:handle_abort=0",
          "UBSAN_OPTIONS": "abort_on_error=0:halt_on_error=1:print_stacktrace=0"}


def io_jobs(prop, nparts_q, nparts_t):
    def f(tier, known):
        n = nparts_q if tier == "quick" else nparts_t
        dl = 420 if tier == "quick" else 600
        js = []
        for i in range(n):
            base = ["--prop", prop]
            args = base + ["--tier", tier, "--part", "%d/%d" % (i, n), "--deadline", str(dl)]
            if known:
                args += ["--known", ",".join(known)]
            js.append({"id": "%s-ovmio-%s-part%dof%d" % (prop, tier, i, n), "cfg": "asan", "bin": "ovmio", "args": args, "replay_args": base,
                       "timeout": dl + 300, "env": IO_ENV})
        return js
    return f


def jobs_c14(tier, known):
    js = []
    dl = 420 if tier == "quick" else 600
    confs = [(3, 3, 16), (4, 2, 64)] if tier == "quick" else [(5, 2, 128), (4, 3, 64)]
    for depth, names, nparts in confs:
        for i in range(nparts):
            base = []
            args = ["--depth", str(depth), "--names", str(names), "--part", "%d/%d" % (i, nparts), "--deadline", str(dl)]
            if known:
                args += ["--known", ",".join(known)]
            js.append({"id": "C14-regmc-d%dn%d-part%dof%d" % (depth, names, i, nparts), "cfg": "asan", "bin": "regmc", "args": args, "replay_args": base, "timeout": dl + 120})
    return js


def jobs_c19(tier, known):
    js = []
    for cfg in ("fast", "asan"):
        for sc in range(5):
            if cfg == "asan" and tier == "quick" and sc in (2, 3):
                parts = [0, 1, 2]      # the sanitizer pass skips the large floating-point alphabets in the quick tier
            elif sc < 2:
                parts = [0, 1, 2]
            elif sc < 4:
                parts = [0, 1, 2, 3, 4, 5]
            else:
                parts = [0]
            for pt in parts:
                args = ["--tier", tier, "--part", "%d.%d" % (sc, pt)]
                if known:
                    args += ["--known", ",".join(known)]
                js.append({"id": "C19-vecmc-%s-%s-%d.%d" % (tier, cfg, sc, pt), "cfg": cfg, "bin": "vecmc", "args": args, "replay_args": [], "timeout": 3000})
    return js


def jobs_c08(tier, known):
    js = tiered("C08", tier, known, STATE_PLAN, asan_plan=ASAN_PLAN, heavy=("S2",))
    js.append({"id": "C08-handlemc-2^30", "cfg": "fast", "bin": "handlemc", "args": [], "replay_args": [], "timeout": 1200})
    return js


C20_S1 = {"poly": [936, 1388, 884, 1872, 1652, 768, 504, 892, 1304, 1384, 10252, 8472, 504, 3872, 4092, 6012],
          "tet": [1116, 1360, 860, 1512, 1652, 768, 504, 892, 1304, 1232, 10216, 8472, 504, 3872, 3740, 11308],
          "hex": [764, 884, 980, 1956, 1608, 888, 544, 1028, 6760, 1272, 17868, 13376, 544, 4636, 4132, 6340]}


def jobs_c20(tier, known):
    js = []
    NM = 16
    dl = 420 if tier == "quick" else 600

    def sj(kernel, threads, bound, qs, dl_):
        base = ["--kernel", kernel, "--threads", str(threads), "--queries", ",".join(map(str, qs))]
        return {"id": "C20-sched-%s-t%d-b%d-q%s" % (kernel, threads, bound, "_".join(map(str, qs))), "cfg": "sched", "bin": "thrmc_sched",
                "args": base + ["--bound", str(bound), "--deadline", str(dl_)], "replay_args": [], "timeout": dl_ + 120}
    for kernel in ("poly", "tet", "hex"):
        # 2 threads x 1 micro-query each: all ordered pairs, <= 1 preemption
        for a in range(NM):
            for b in range(NM):
                js.append(sj(kernel, 2, 1, (a, b), dl))
        # <= 2 preemptions: the number of schedules grows like S1(a)*S1(b)/2 (S1 = measured number of <=1-preemption schedules of the
        # diagonal job), so the bound-2 jobs are the pairs below a size limit: ~150k schedules per job (quick), ~600k (thorough)
        lim = 3.0e5 if tier == "quick" else 6.0e5
        for a in range(NM):
            for b in range(NM):
                if tier == "quick" and a != b:
                    continue
                if C20_S1[kernel][a] * C20_S1[kernel][b] <= lim:
                    js.append(sj(kernel, 2, 2, (a, b), dl))
        # 3 threads, <= 1 preemption
        for a in range(NM):
            trip = [(a, (a + 3) % NM, (a + 7) % NM)] if tier == "quick" else [(a, b, (a + b + 1) % NM) for b in range(0, NM, 4)]
            for t in trip:
                js.append(sj(kernel, 3, 1, t, dl))
        # the same micro-queries on the "big" fixture (vertex 0 has 8 incident cells: size-dependent code paths), <= 1 preemption
        bigq = (0, 1, 2, 3, 4, 8, 9, 10, 13, 14)
        for a in bigq:
            for b in bigq:
                if tier == "thorough" or a == b or a == 0 or b == 0:
                    js.append(sj(kernel + "B", 2, 1, (a, b), dl))
        # free-running pass under ThreadSanitizer: the large sweeping reader bodies on 2..16 real threads, both fixtures
        for kk in (kernel, kernel + "B"):
            for nt in (2, 4, 8, 16):
                args = ["--kernel", kk, "--threads", str(nt), "--reps", "40" if tier == "quick" else "400"]
                js.append({"id": "C20-tsan-%s-t%d" % (kk, nt), "cfg": "tsan", "bin": "thrmc_tsan", "args": args, "replay_args": args, "timeout": 1200})
    return js


E1_ASSUME = ["states are operation histories replayed on fresh objects; deduplicated on a key of all concrete fields",
             "size caps: <= 8 vertices, 16 edges, 12 faces, 4 cells for additions (seeds may be larger)",
             "no halfface is ever used by two live cells (excluded by the property); arguments are always valid handles"]

def mc(jobs, bounds_q, bounds_t, extra=None, **kw):
    d = {"jobs": jobs, "level": "model_checking", "assumptions": E1_ASSUME + (extra or []), "bounds": {"quick": bounds_q, "thorough": bounds_t}}
    d.update(kw)
    return d


B_STATE_Q = "all seeds x 3 kernels x 4 deletion modes: full alphabet depth 2 + reduced alphabet depth 3 (small seeds), depth 1 + 2 (medium), depth 1 (large); ASan+UBSan pass depth 1"
B_STATE_T = "full alphabet depth 2 + reduced alphabet depth 4 (small seeds), 1 + 3 (medium), 1 + 2 (large), and separately the full alphabet to depth 3 (small) / 2 (medium); seeds listed as heavy for the property keep the quick bounds; ASan+UBSan pass depth 1-2"

PROPS = {
    "C01": mc(jobs_state("C01"), B_STATE_Q, B_STATE_T),
    "C02": mc(jobs_c02, "deletion alphabet (adds, deletes, gc, clear, mode switches) depth 3 (small), 1+3 (medium), 1+2 (large) x 4 modes; 7 partial incidence subsets depth 2 / 1+2",
              "depth 4 (small), 2+4 (medium), 1+3 (large); incidence subsets depth 3 / 1+3 / 1+2"),
    "C03": mc(jobs_c03, B_STATE_Q + "; 5 typed properties (int private, bool shared, double persistent, string private-named, Vec3d shared) on all 6 entity kinds + mesh property + one property created mid-history",
              B_STATE_T),
    "C04": mc(jobs_c04, "every seed x 3 kernels x 4 deletion modes x {all incidences, none}: every set of <= 2 marked entities (any kinds) x 6 collection entry points (collect_garbage, leaving deferred mode, StatusAttrib::garbage_collection with/without manifoldness, with/without every handle tracked)",
              "<= 3 marks, all 8 incidence subsets, also from every state one deletion/addition away (small seeds)",
              extra=["tracking: all handles of all four trackable kinds (plus one invalid handle each) are handed in at once; each handle is remapped independently by the code, so this covers every subset",
                     "differential twin: the same entities deleted immediately on a copy of the state with deferred deletion switched off"]),
    "C13": mc(jobs_c13, B_STATE_Q + "; per state: copy-construct, assign to fresh / non-empty target with held handles, chain, self-assignment, assignment into all three kernel types, then 21 mutations of the copy and 21 of the source with the other side's full state compared after each",
              B_STATE_T),
    "C05": mc(jobs_state("C05", heavy=("S2", "S4a", "S4b", "S5", "S10b", "S11", "S12", "S16", "S18a", "S19", "S7")), B_STATE_Q + "; every centre x 26 circulators x laps 1..3 x every step count", B_STATE_T),
    "C06": {"jobs": io_jobs("C06", 16, 16), "level": "exploration", "engine": "ovmio",
            "rule": "cases = (corpus mesh x property set) x {writer bytes decoded by the independent reference codec; round trip into every compatible kernel x topology check x incidences; every alternative encoding of the option lattice; OVM-ASCII round trip + second round trip; pending deletions x 4 through both writers; read_file by extension; type detection}; a case is non-trivial/distinct by its (operator, outcome) class",
            "technique": "bounded-exhaustive enumeration of encodings (finite option lattice of an independent reference OVMB codec) against the real reader/writer",
            "assumptions": ["the reference codec (engines/ovmio/ref_codec.hh) is written from ovmb.ksy + binary_file_format.docu only and self-checked on every generated encoding",
                            "OVM-ASCII: non-finite floating point values and string properties are left out (the text format cannot carry them / has no exactness promise); property blocks are compared order-insensitively",
                            "value alphabets per codec type are finite (min/max/-0/denormal/NaN payload/inf, empty/spaced/multi-line/NUL strings, handles -1/0/5/70000)"],
            "bounds": {"quick": "14 small corpus meshes x 5-6 property sets (all 30 codec types) + 19 index-width boundary meshes (254..257, 65535..65537 vertices / halfedges / halffaces); 2-way span splits, widths, offsets, unknown chunks, DIRP position",
                       "thorough": "all 30 types on all 7 entity kinds; 3-way splits; unknown chunk at every boundary"}},
    "C07": {"jobs": io_jobs("C07", 16, 16), "level": "fault_enumeration", "engine": "ovmio",
            "rule": "every corpus file (14 OVMB + 14 OVM-ASCII) x every mutation of the operator set (byte substitution with 10 values, deletion, insertion, duplication at every position; every truncation; 2/4/8-byte little-endian windows x 13 boundary values; splices at chunk boundaries; inserted bytes after chunks; ASCII: every token x replacement set, every line dropped/repeated) x kernels x topology check; distinct = (operator, outcome) classes",
            "technique": "bounded-exhaustive mutation of a corpus with fork-isolated execution under ASan/UBSan/libstdc++ assertions; success audited for validity",
            "assumptions": ["'every byte string' is approximated by the exhaustive application of a finite operator set to a corpus",
                            "allocation requests above 256 MB fail (sanitizer allocator returns null -> std::bad_alloc), which is the allowed 'declared size cannot be allocated' outcome",
                            "a case that exceeds 3 s is re-run alone with 30 s before it is called a hang"],
            "bounds": {"quick": "28 files, reduced insertion/window/splice density", "thorough": "all window offsets, all splices, 2-byte insertions, all three kernels"}},
    "C18": {"jobs": io_jobs("C18", 16, 16), "level": "fault_enumeration", "engine": "ovmio",
            "rule": "every corpus OVMB file x {every truncation length; every byte of the file header, chunk headers, sub-headers and padding x 13 values; every chunk dropped / duplicated / moved to every other position; input stream failing from byte k for every k; output stream failing from byte k for every k}; MUST-REJECT / VALID / UNSPECIFIED decided by the independent reference decoder",
            "technique": "exhaustive fault enumeration (truncation points, header bytes, chunk permutations, stream fault positions) with an independent format oracle",
            "assumptions": ["mutations the format documents leave open (compression != 0, file_version, flags, empty chunks ...) are only audited for memory safety and validity"],
            "bounds": {"quick": "14 files", "thorough": "14 files (same operators; larger value set is in C07)"}},
    "C08": mc(jobs_c08, "(a) ALL 2^30 handle indices for the conversions, static and member forms; (b) " + B_STATE_Q + ": every live edge and face of every reachable state",
              "(a) all 2^30 indices; (b) " + B_STATE_T),
    "C09": mc(jobs_state("C09"), B_STATE_Q, B_STATE_T),
    "C10": mc(jobs_state("C10", heavy=("S2", "S4a", "S4b", "S5", "S10b", "S11", "S12", "S16", "S18a", "S19", "S7")), B_STATE_Q + "; all ordered vertex pairs/triples(/4-tuples), all halfedge pairs, all (cell, ...) combinations per state", B_STATE_T),
    "C11": mc(jobs_c11, "probe alphabet on every seed x 3 kernels x {deferred+fast, immediate} x vertex incidences {on, off}: add_edge over all ordered vertex pairs, add_face(list, check) over ALL halfedge tuples of length 0..3 (hex: 0..4) and add_cell(list, check) over ALL halfface tuples of length 0..4 (hex: 0..3) from a pool of 8 live handles; plus valid-argument construction histories depth 2 / 1",
              "tuples up to length 4 (faces) / 5 (cells), also after every single deletion and with all incidences off; construction histories depth 3 / 2 / 1",
              extra=["accept predicate: closed halfedge loop / every halfedge of the listed halffaces matched exactly once by its opposite (several disjoint closed surfaces are accepted, as by the code), plus the valence rules of the tet/hex kernels",
                     "hex kernel: an accepted topology-checked add_cell may store a re-ordering of the given list (C16 decides the order)"]),
    "C12": mc(jobs_c12, "8 incidence subsets x 4 deletion modes x all seeds x 3 kernels: full alphabet depth 2 (small), depth 1 (medium/large) + depth 1+2 on 4 seeds x 8 configs; ASan+UBSan depth 1 on 5 configs",
              "depth 2+3 (small), 1+2 (medium), 1 (large) on all 32 configs; deep 2+3 / 1+2 on 8 configs", extra=[
                  "differential oracle: a twin mesh with all incidences permanently enabled executes the same history (handle for handle) minus the toggles",
                  "add_face(vertices) over parallel live edges is left out (which parallel edge is reused is unspecified and configuration-dependent)"]),
    "C14": {"jobs": jobs_c14, "level": "model_checking", "engine": "regmc",
            "assumptions": ["two meshes (TopologyKernel), 6 handle slots = 2 per (int,Vertex), (string,Vertex), (int,HalfEdge); names {'', a[, b]}",
                            "reference model of the registry (DESIGN.md section 12); states deduplicated on the model state (sound while implementation == model, which is checked at every step)",
                            "ASan + UBSan are the lifetime oracle; every state is also torn down in two destruction orders"],
            "bounds": {"quick": "all histories of depth 4 (2 names) and depth 3 (3 names) over ~75-150 operations (request/create_*/get/set_shared/set_persistent/set_name/handle copy,move,drop/clear_*/clear/add_vertex/add_edge/mesh copy,assign,self-assign,destroy,switch)",
                       "thorough": "depth 5 with 2 names, depth 4 with 3 names"},
            "technique": "explicit-state model checking of the implementation against a reference model (BFS over operation histories)"},
    "C15": mc(jobs_c15, "tetrahedral kernel, all tet seeds x 4 deletion modes: full alphabet + add_cell(4 vertices) over every 4-subset in both orientations + collapse_edge over every halfedge satisfying the link condition; depth 2 (small), 1+2 (medium), 1 (large). Per state: every cell x halfface x halfedge/vertex for the vertex-order contracts, every TetTopology constructor, all 24+12+4 labels",
              "depth 2+3 (small/medium), 1+2 (large)",
              extra=["cells that are closed surfaces but not tetrahedra (e.g. two pillow pairs) are outside the property's quantifier and are not generated",
                     "collapse_edge is compared in vertex-label space (it swaps halfedge/halfface/cell property slots between old and rebuilt entities); collapsible = link condition on the simplicial complex, clean complexes only"]),
    "C16": mc(jobs_c16, "hexahedral kernel, S0-S2, S14-S16 x 4 deletion modes: full alphabet + add_cell(8 vertices) over every free closed hex surface in all 24 cube rotations; depth 2 / 1+2; plus ALL 720 permutations (and all 6-tuples from a pool of 6-7 halffaces) through the topology-checked add_cell after deleting a cell",
              "depth 3 / 2+3, pool of 7 halffaces",
              extra=["cells that are closed surfaces of 6 quads but not hexahedra are outside the property's quantifier and are not generated"]),
    "C19": {"jobs": jobs_c19, "level": "exploration", "engine": "vecmc",
            "rule": "VectorT<S,D>, S in {int, unsigned, float, double}, D in {2,3,4}: every vector over the lattice {-2..2}^D ({0..4}^D unsigned) x every second vector x every scalar, every operation of the statement; floating point additionally over {0,-0,1,-1,0.5,1e-3,1e3,1/3,denorm_min,max,inf,NaN}^D (D=4: axis-aligned). Geometry: 6 shapes (tet, two tets, pyramid, prism, hex, dangling faces) x injective position assignments from a 3x3x2 lattice (exhaustive for the tet). distinct = distinct (operation, result bits) pairs",
            "technique": "exhaustive enumeration of finite value lattices against component-wise reference formulas",
            "assumptions": ["reductions on the floating-point alphabet are judged within the evaluation-order independent forward error bound; where a partial product is not finite in the scalar type the IEEE class of the result is left open",
                            "l1_norm is the plain component sum (no absolute values): judged only on non-negative vectors, recorded as an observation otherwise",
                            "VectorT::apply is not among the named operations (it transforms an uninitialised temporary; observation in DESIGN.md)",
                            "halfface normals of the two sides are required to be opposite for planar, strictly convex faces"],
            "bounds": {"quick": "D=4 lattice reduced to {-2,0,2}; float/double D=3 special-value pairs strided", "thorough": "full lattices, all D=3 special-value pairs"}},
    "C20": {"jobs": jobs_c20, "level": "model_checking", "engine": "thrmc",
            "technique": "stateless model checking of the implementation under a serialising scheduler (iterative context bounding, scheduling points at every instrumented function entry/exit) + free-running ThreadSanitizer pass over the same reader bodies",
            "assumptions": ["scheduling points are the entries and exits of all OpenVolumeMesh functions (-finstrument-functions at -O0 -fno-inline, std headers excluded); accesses between two function boundaries are covered by the ThreadSanitizer pass, not by preemption",
                            "weak-memory effects are not modelled (irrelevant for data published before the threads start)",
                            "states = schedules executed, transitions = scheduling points executed; every schedule is an execution of the real code",
                            "property creation / destruction is excluded, as in the statement"],
            "bounds": {"quick": "3 kernels: all 256 ordered pairs of 16 micro-queries with <= 1 preemption; 12 pairs with <= 2 preemptions; 16 triples of threads with <= 1 preemption; TSan: 12 sweeping reader bodies on 2/4/8/16 threads",
                       "thorough": "all 256 pairs with <= 2 preemptions; 256 triples with <= 1; TSan with 60 repetitions"}},
    "C17": mc(jobs_c17, "every ordered pair (a<=b) of slots of each kind incl. deleted ones, in every state of: full alphabet depth 1 (small), reduced depth 1 (medium), seed only (large) x 4 modes; 7 partial incidence subsets on seed states",
              "states of depth 2 (small) / 1 (medium, large); partial incidence subsets after one more operation"),
}

NOT_YET = {}
ENGINES = [
    {"name": "thrmc", "path": "engines/thrmc", "serves_properties": ["C20"], "kind_free_text": "hand-written serialising scheduler over -finstrument-functions scheduling points (preemption-bounded exhaustive schedules) + ThreadSanitizer free-running pass"},
    {"name": "vecmc", "path": "engines/vecmc", "serves_properties": ["C19", "C08"], "kind_free_text": "exhaustive value lattices (VectorT, geometry) and the 2^30 handle-index loop"},
    {"name": "regmc", "path": "engines/regmc", "serves_properties": ["C14"], "kind_free_text": "explicit-state exploration of the property registry against a reference model, ASan lifetime oracle"},
    {"name": "ovmio", "path": "engines/ovmio", "serves_properties": ["C06", "C07", "C18"],
     "kind_free_text": "exhaustive encodings / mutations / stream faults against the real readers and writers, independent reference OVMB codec, fork isolation"},
    {"name": "meshmc", "path": "engines/meshmc", "serves_properties": ["C01", "C02", "C03", "C04", "C05", "C08", "C09", "C10", "C11", "C12", "C13", "C15", "C16", "C17"],
     "kind_free_text": "explicit-state BFS over operation histories of the real mesh kernels, label-space reference model + brute-force incidence oracle"},
]

# per-property thorough budgets where the measured plan needs more than the default 1000 s on 16 cores
PROPS["C12"]["budget"] = {"thorough": 2400}
PROPS["C11"]["budget"] = {"thorough": 1500}
