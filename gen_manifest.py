#!/usr/bin/env python3
"""Regenerates MANIFEST.json from jobs.PROPS (claimed checks) + the property list (not_applicable for the rest)."""
import json, os, sys
sys.path.insert(0, os.path.dirname(os.path.abspath(__file__)))
import jobs as J

props = [json.loads(l) for l in open("properties.jsonl")]
checks, na = [], []
for p in props:
    pid = p["id"]
    if pid in J.PROPS:
        s = J.PROPS[pid]
        checks.append({
            "property_id": pid,
            "quick_cmd": "./check %s --tier quick" % pid,
            "thorough_cmd": "./check %s --tier thorough" % pid,
            "evidence_file": "/verif/evidence/%s.json" % pid,
            "replay_cmd_template": "./check %s --replay {path}" % pid,
            "engine": s.get("engine", "meshmc"),
            "level_claimed": {"category": s["level"], "text": s.get("level_text", ""), "design_ref": s.get("design_ref", "DESIGN.md section 4, " + pid)},
            "level_note": s.get("level_note", "bounded exhaustive exploration of the real code; sanitizers + libstdc++ assertions as memory-safety oracle; -DNDEBUG reference configuration"),
            "technique": s.get("technique", "explicit-state model checking of the implementation (BFS over operation histories, deduplicated on the full concrete state)"),
        })
    else:
        na.append({"property_id": pid, "reason": J.NOT_YET.get(pid, "check not built yet in this round (work in progress); no verdict is claimed")})
m = {
    "version": 1,
    "setup_cmd": "./setup.sh",
    "hooks": {"guard": "OVM_VERIF_HOOKS", "enable": "harness builds pass -DOVM_VERIF_HOOKS (build.py); the one source hook (IO/detail/BinaryFileWriter: skip the 100 MB pre-reservation of the chunk buffer) is active only with that define",
              "baseline_off_cmd": "cmake --build /repo/_build -j16 && ctest --test-dir /repo/_build -j8 --timeout 900",
              "source_commits": ["65f5718"], "add_only": True},
    "engines": J.ENGINES,
    "checks": checks,
    "notes": "See DESIGN.md. Every check rebuilds the harness from /repo's working tree (build.sh), explores exhaustively within the bounds recorded in its evidence file, confirms violations by replay and honours known_findings.json.",
    "not_applicable": na,
}
json.dump(m, open("MANIFEST.json", "w"), indent=1)
print("checks:", len(checks), "not_applicable:", len(na))
