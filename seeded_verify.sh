#!/bin/bash
# Confirm a sub-agent's seeded change in its scratch worktree, then store it under /verif/seeded/<id>/ and drop the worktree.
# usage: seeded_verify.sh <worktree-name> <seeded-id> <property>
set -u
W=/tmp/wt/$1; ID=$2; PROP=$3; OUT=/verif/seeded/$ID
mkdir -p $OUT
cd $W || exit 1
cp _seeded/patch.diff $OUT/patch.diff
LOG=$OUT/verify.log; : > $LOG
git checkout -q -- src 2>/dev/null; git apply --check $OUT/patch.diff || { echo "patch does not apply" | tee -a $LOG; exit 1; }
build_demo() { g++ -std=c++17 -O1 -g -DNDEBUG -I$W/src -I$W/_build/src _seeded/demo.cc $(find $W/_build -name 'libOpenVolumeMesh*.a' | head -1) -o /tmp/wt/demo_$ID >> $LOG 2>&1; }
[ -d _build ] || cmake -G Ninja -B _build -DCMAKE_BUILD_TYPE=RelWithDebInfo -DFETCHCONTENT_SOURCE_DIR_GOOGLETEST=/usr/src/googletest -DFETCHCONTENT_FULLY_DISCONNECTED=ON > /dev/null
# 1. original code
cmake --build _build -j8 >> $LOG 2>&1 || { echo "original build failed" | tee -a $LOG; exit 1; }
build_demo; timeout 600 /tmp/wt/demo_$ID > $OUT/demo_original.out 2>&1; RC0=$?
# 2. with the change
git apply $OUT/patch.diff
cmake --build _build -j8 >> $LOG 2>&1 || { echo "patched build failed" | tee -a $LOG; exit 1; }
T=$(cd _build && ctest -j1 --timeout 900 2>&1 | grep -E "tests passed|\(Failed\)" | tr '\n' ' ')
build_demo; timeout 600 /tmp/wt/demo_$ID > $OUT/demo_patched.out 2>&1; RC1=$?
cp _seeded/demo.cc $OUT/; cp _seeded/notes.md $OUT/ 2>/dev/null; cp _seeded/demo_build.sh $OUT/ 2>/dev/null
echo "property=$PROP demo_rc_original=$RC0 demo_rc_patched=$RC1 ctest_patched(serial)=[$T]" | tee -a $LOG
python3 - <<PY
import json
json.dump({"id":"$ID","breaks_property":"$PROP","demo_rc_original":$RC0,"demo_rc_patched":$RC1,"ctest_with_change_serial":"$T",
 "confirmed": ($RC0==0 and $RC1!=0 and "100% tests passed" in "$T"),
 "what_i_ran":"seeded_verify.sh: build original, run demo (rc 0 expected); git apply patch.diff, rebuild, ctest -j1, run demo (rc != 0 expected)",
 "needs_to_manifest":"see notes.md"}, open("$OUT/meta.json","w"), indent=1)
PY
rm -f /tmp/wt/demo_$ID
cd /; git -C /repo worktree remove --force $W
