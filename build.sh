#!/bin/bash
# (Re)build a verification configuration from /repo's *current working tree*.
# usage: build.sh <cfg> [target ...]      cfg in {asan, fast, tsan, sched}
# Serialised by flock; incremental through make + -MMD dependency files.
set -e
cd "$(dirname "$0")"
mkdir -p build
exec 9>build/.lock
flock 9
exec python3 build.py "$@"
